"""Engine `sched`: C15 (concurrent writes serializable and durable) and C20
(reads observe a committed prefix).

spec -> impl: spec/MC_Sched.tla enumerates every interleaving of the threads of
a workload at the cfg-guarded scheduling points; `ilv drive-sched` forces each
schedule on real threads, copies the data directory while all threads are parked
(crash images) and records call/return order, query observations and the served
state; the images are reopened by the real recovery code; spec/SchedTrace.tla
judges serializability, durability at every image and the committed-prefix rule
against Store.tla.
"""
import json
import os
import random
import shutil
import sys
from concurrent.futures import ThreadPoolExecutor

import vlib


def t(i):
    return [["i64", str(i)], ["i64", str(i * 10)]]


CFG = {"buffer_size": 10000, "max_wal": 0, "durability": "immediate"}

# workload name -> (MC_Sched config, threads, pre, cfg, properties it serves)
WORKLOADS = {
    # two writers to one shard and a flusher: the WAL trim of a flush races the
    # window between a writer's WAL append and its buffer insertion
    "flush_race": ("MC_Sched_F55", {"F": [{"k": "save", "kg": "g"}],
                                    "w1": [{"k": "ins", "kg": "g", "rel": "r", "tuples": [t(1)]}],
                                    "w2": [{"k": "ins", "kg": "g", "rel": "r", "tuples": [t(2)]}]}, [], CFG, ("C15",)),
    # insert racing delete of the same tuple
    "ins_del": ("MC_Sched_2x5", {"w1": [{"k": "ins", "kg": "g", "rel": "r", "tuples": [t(1)]}],
                                 "w2": [{"k": "del", "kg": "g", "rel": "r", "tuples": [t(1)]}]},
                [{"k": "ins", "kg": "g", "rel": "r", "tuples": [t(1)]}], CFG, ("C15",)),
    # small buffer: the flush happens inside append
    "buffer1": ("MC_Sched_2x5", {"w1": [{"k": "ins", "kg": "g", "rel": "r", "tuples": [t(1)]}],
                                 "w2": [{"k": "ins", "kg": "g", "rel": "r", "tuples": [t(2)]}]}, [],
                {"buffer_size": 1, "max_wal": 0, "durability": "immediate"}, ("C15",)),
    # a flush / compaction / buffer-fill flush of ANOTHER shard (the WAL is shared by all shards and is
    # rewritten by every flush) while writers are between their WAL append and their acknowledgement
    "flush_other": ("MC_Sched_F55", {"F": [{"k": "save", "kg": "h"}],
                                     "w1": [{"k": "ins", "kg": "g", "rel": "r", "tuples": [t(1)]}],
                                     "w2": [{"k": "ins", "kg": "g", "rel": "q", "tuples": [t(2)]}]},
                    [{"k": "create", "kg": "h"}, {"k": "ins", "kg": "h", "rel": "s", "tuples": [t(9)]}], CFG, ("C15",)),
    "compact_other": ("MC_Sched_C", {"F": [{"k": "compact"}],
                                     "w1": [{"k": "ins", "kg": "g", "rel": "r", "tuples": [t(1)]}]},
                      [{"k": "create", "kg": "h"}, {"k": "ins", "kg": "h", "rel": "s", "tuples": [t(9)]}], CFG, ("C15",)),
    "fill_other": ("MC_Sched_W6", {"w1": [{"k": "ins", "kg": "g", "rel": "r", "tuples": [t(1)]}],
                                   "w2": [{"k": "ins", "kg": "h", "rel": "s", "tuples": [t(8)]}]},
                   [{"k": "create", "kg": "h"}, {"k": "ins", "kg": "h", "rel": "s", "tuples": [t(9)]}],
                   {"buffer_size": 2, "max_wal": 0, "durability": "immediate"}, ("C15",)),
    # incremental maintenance on: a consistent reader of the incremental engine against two writers
    # (a writer that took its logical time early may apply its shadow write after the reader advanced the frontier)
    "incr_reader": ("MC_Sched_R", {"a": [{"k": "ins", "kg": "g", "rel": "r", "tuples": [t(1)]}],
                                   "b": [{"k": "ins", "kg": "g", "rel": "r", "tuples": [t(2)]}],
                                   "r": [{"k": "iread", "kg": "g", "rel": "r"}, {"k": "iread", "kg": "g", "rel": "r"}]},
                    [{"k": "ins", "kg": "g", "rel": "r", "tuples": [t(3)]}, {"k": "enable_incr", "kg": "g"}], CFG, ("C19",)),
    # C17: an insert into graph h racing a drop + re-create of h (sequentially: d's two
    # operations are atomic, the interleaving is at the insert's scheduling points)
    "drop_recreate": ("MC_Sched_D", {"d": [{"k": "drop", "kg": "h"}, {"k": "create", "kg": "h"}],
                                     "w": [{"k": "ins", "kg": "h", "rel": "r", "tuples": [t(1)]}]},
                      [{"k": "create", "kg": "h"}, {"k": "ins", "kg": "h", "rel": "r", "tuples": [t(2)]}], CFG, ("C17", "C15")),
    # two clients in the read path (scheduling points before a snapshot is stored and before a reader
    # loads it are switched on for this workload only): a client must see its own acknowledged write
    # whatever another reader is doing
    "two_readers": ("MC_Sched_RR", {"c1": [{"k": "ins", "kg": "g", "rel": "r", "tuples": [t(3)]},
                                           {"k": "query", "kg": "g", "rel": "r", "arity": 2}],
                                    "c2": [{"k": "query", "kg": "g", "rel": "r", "arity": 2}]},
                    [{"k": "ins", "kg": "g", "rel": "r", "tuples": [t(1)]}], CFG, ("C20",)),
    "reader": ("MC_Sched_Q", {"q": [{"k": "ins", "kg": "g", "rel": "r", "tuples": [t(3)]},
                                    {"k": "query", "kg": "g", "rel": "r", "arity": 2}],
                              "w1": [{"k": "ins", "kg": "g", "rel": "r", "tuples": [t(1), t(2)]}]}, [], CFG, ("C20",)),
}


PERSIST_WORKLOADS = ("flush_race", "buffer1", "flush_other", "compact_other", "fill_other")
POINT_EVENT = {"persist.append.after_wal": "wal", "persist.append.after_buffer": "buf", "persist.flush.start": "fstart"}


def persist_events(c, r, results):
    """The run's log as PersistTrace events (threads by workload-qualified name; images = recovered tuple ids)."""
    w = c["workload"]
    pre = [{"id": int(t_[0][1]), "shard": f"{op['kg']}:{op['rel']}"} for op in c["pre"] if op["k"] == "ins" for t_ in op["tuples"]]
    evs = [{"ev": "reset", "case": r["case"], "pre": pre}]
    images = sorted(r["images"], key=lambda im: im["at"])
    log = [e for e in r["log"] if e["ev"] in ("point", "ret")]

    def image_event(im):
        st = results[os.path.join(r["dir"], im["dir"])]["state"]
        ids = sorted({int(t_[0][1]) for g in st["facts"].values() for rows in g.values() for t_ in rows})
        return {"ev": "image", "case": r["case"], "rec": ids, "at": im["at"]}

    k = 0
    for e in log:
        while k < len(images) and images[k]["at"] < e["seq"]:
            evs.append(image_event(images[k]))
            k += 1
        if e["ev"] == "ret":
            evs.append({"ev": "ret", "case": r["case"], "thr": f"{w}_{e['thr']}"})
        elif e["at"] in POINT_EVENT:
            evs.append({"ev": POINT_EVENT[e["at"]], "case": r["case"], "thr": f"{w}_{e['thr']}"})
    for im in images[k:]:
        evs.append(image_event(im))
    return evs


def kglife_events(r, results):
    """The log of a drop_recreate run as KgLifeTrace events (the inserted tuple's id 1 is KgLife!NewId = 100)."""
    def ids_of(state):
        rows = state.get("facts", {}).get("h", {}).get("r", [])
        return sorted({100 if int(t_[0][1]) == 1 else int(t_[0][1]) for t_ in rows})

    evs = [{"ev": "reset", "case": r["case"]}]
    images = sorted(r["images"], key=lambda im: im["at"])
    k = 0

    def image_event(im):
        return {"ev": "image", "case": r["case"], "rec": ids_of(results[os.path.join(r["dir"], im["dir"])]["state"])}

    for e in r["log"]:
        if e["ev"] not in ("point", "call", "ret"):
            continue
        while k < len(images) and images[k]["at"] < e["seq"]:
            evs.append(image_event(images[k]))
            k += 1
        if e["ev"] == "point" and e["thr"] == "w":
            if e["at"] == "se.write.after_time":
                evs.append({"ev": "begin", "case": r["case"]})
            elif e["at"] == "persist.append.after_wal":
                evs.append({"ev": "wal", "case": r["case"]})
        elif e["ev"] == "call" and e["op"] in ("d.1", "d.2"):
            evs.append({"ev": "dcall" if e["op"] == "d.1" else "ccall", "case": r["case"]})
        elif e["ev"] == "ret":
            if e["op"] == "w.1":
                evs.append({"ev": "iret", "case": r["case"], "ok": bool(e["ok"])})
            elif e["op"] in ("d.1", "d.2"):
                evs.append({"ev": "dret" if e["op"] == "d.1" else "cret", "case": r["case"]})
    for im in images[k:]:
        evs.append(image_event(im))
    evs.append({"ev": "served", "case": r["case"], "ids": ids_of(r["served"])})
    return evs


def schedules(cfg_name, rep):
    res, out, violated = vlib.tlc_model("MC_Sched", cfg_name=cfg_name, workers=4, timeout=1200)
    rep.add_tlc(res)
    return [ln["sched"] for ln in res.lines if isinstance(ln, dict) and ln.get("ev") == "schedule"]


def run(prop, replay=None):
    tier = vlib.tier()
    rep = vlib.Report(prop)
    wd = vlib.workdir(prop)
    vlib.build_harness()
    rng = random.Random(vlib.seed() * 15485863 + int(prop[1:]))
    cases = []
    budget = int(os.environ.get("VERIF_N", {"quick": 420 if prop == "C15" else 260, "thorough": 6000}[tier]))
    exhaustive = {}
    if replay:
        with open(replay) as f:
            c = json.load(f)
        cases = [c["case_input"]]
    else:
        if prop == "C15":
            # the write-ahead protocol itself (spec/Persist.tla), exhaustively for 3 writers, 2 shards, 3 flushes and a
            # crash anywhere: Durable holds with the append critical section of the current code (Atomic), and TLC
            # finds the lost-entry behaviour of the two-critical-section variant (kept as an expected violation:
            # if it stopped failing the model would no longer describe what the repair 5d2b373 repaired)
            mres, mout, violated = vlib.tlc_model("Persist", cfg_name="MC_Persist_atomic", workers=4, timeout=900)
            if violated:
                vlib.tool_error("Persist.tla (Atomic) violates Durable: the protocol model is wrong")
            rep.add_tlc(mres)
            sres, sout, sviol = vlib.tlc_model("Persist", cfg_name="MC_Persist_split", workers=4, timeout=900, expect_violation=True)
            if not sviol:
                vlib.tool_error("Persist.tla (split critical sections) no longer violates Durable: the model lost the defect")
            rep.cov["protocol_model"] = "Persist.tla: Atomic=TRUE 2030 states, Durable and NothingOnlyInMemory hold; " \
                                        "Atomic=FALSE violated in 4 steps (expected)"
        if prop == "C17":
            # the insert / drop / re-create protocol (spec/KgLife.tla): invariants hold with the guard and lock held from
            # Begin to Apply (the code since 9a3b9b0); the pinned variant is an expected violation of ServedIsDurable
            mres, mout, violated = vlib.tlc_model("KgLife", cfg_name="MC_KgLife_held", workers=2, timeout=600)
            if violated:
                vlib.tool_error("KgLife.tla (Held) violates its invariants: the protocol model is wrong")
            rep.add_tlc(mres)
            sres, sout, sviol = vlib.tlc_model("KgLife", cfg_name="MC_KgLife_released", workers=2, timeout=600, expect_violation=True)
            if not sviol:
                vlib.tool_error("KgLife.tla (guard released before Apply) no longer violates ServedIsDurable")
            rep.cov["protocol_model"] = "KgLife.tla: Held=TRUE 16 states, ServedIsDurable / DropFinal / AckedIsServed hold; " \
                                        "Held=FALSE violated in 6 steps (expected)"
        wls = [w for w, v in WORKLOADS.items() if prop in v[4]]
        per = max(1, budget // len(wls))
        for w in wls:
            mc, threads, pre, cfg, _ = WORKLOADS[w]
            sch = schedules(mc, rep)
            if not sch:
                vlib.tool_error(f"MC_Sched produced no schedule for {mc}")
            exhaustive[w] = len(sch) <= per
            if len(sch) > per:
                sch = rng.sample(sch, per)
            for s in sch:
                # crash images: at the end always; at two random steps in quick, at every step in thorough
                steps = list(range(len(s))) if tier == "thorough" else rng.sample(range(len(s)), min(2, len(s)))
                cases.append({"case": len(cases) + 1, "workload": w, "cfg": cfg, "pre": pre, "threads": threads,
                              "schedule": s, "image_steps": steps, "read_points": w == "two_readers"})
    # the controller is process-global: one schedule at a time per process, several processes
    # (a thread blocked on a lock costs the controller's patience, so the runs are mostly idle)
    NP = 1 if replay else 12
    runs = []

    def drive(pi):
        mine = cases[pi::NP]
        if not mine:
            return []
        cfile = os.path.join(wd, f"cases{pi}.ndjson")
        with open(cfile, "w") as f:
            for c in mine:
                f.write(json.dumps(c) + "\n")
        out = os.path.join(wd, f"sched{pi}.ndjson")
        vlib.ilv(["drive-sched", "--cases", cfile, "--out", out, "--root", os.path.join(wd, f"run{pi}")], timeout=7200)
        return [json.loads(l) for l in open(out)]

    with ThreadPoolExecutor(max_workers=NP) as ex:
        for part in ex.map(drive, range(NP)):
            runs += part
    runs.sort(key=lambda r: r["case"])
    # recover every image with the real recovery code (own cwd per image; several processes)
    imgs = []
    for r in runs:
        for im in r["images"]:
            imgs.append((os.path.join(r["dir"], im["dir"]), r))
    known = json.dumps(runs[0]["known"]) if runs else "{}"
    results = {}

    def rec(ci):
        ch = imgs[ci::8]
        if not ch:
            return
        lst = os.path.join(wd, f"list{ci}.txt")
        o = os.path.join(wd, f"rec{ci}.ndjson")
        with open(lst, "w") as f:
            f.write("\n".join(d for d, _ in ch) + "\n")
        vlib.ilv(["recover", "--list", lst, "--known", json.dumps({"g": {"r": 2, "q": 2}, "h": {"r": 2, "s": 2}}), "--cfg", json.dumps(CFG),
                  "--out", o], timeout=3600)
        for line in open(o):
            x = json.loads(line)
            results[x["dir"]] = x

    with ThreadPoolExecutor(max_workers=8) as ex:
        list(ex.map(rec, range(8)))
    trace = os.path.join(wd, "trace.ndjson")
    byc = {c["case"]: c for c in cases}
    nimg = 0
    with open(trace, "w") as f:
        for r in runs:
            c = byc[r["case"]]
            ops, queries = [], []
            calls = {}
            for e in r["log"]:
                if e["ev"] == "call":
                    calls[e["op"]] = e["seq"]
            rets = {e["op"]: e for e in r["log"] if e["ev"] == "ret"}
            for thr, tops in c["threads"].items():
                for i, op in enumerate(tops):
                    oid = f"{thr}.{i + 1}"
                    if oid not in calls:
                        continue
                    ret = rets.get(oid)
                    if op["k"] in ("query", "iread"):
                        if ret:
                            queries.append({"call": calls[oid], "ret": ret["seq"], "kg": op["kg"], "rel": op["rel"],
                                            "obs": ret["obs"], "thr": thr, "ok": bool(ret["ok"]),
                                            "prop": "C19" if op["k"] == "iread" else "C20",
                                            "err": str(ret["ret"].get("err", ""))[:200]})
                        continue
                    ops.append({"id": oid, "op": op, "call": calls[oid], "ret": ret["seq"] if ret else 0,
                                "ok": bool(ret["ok"]) if ret else True})
            images = []
            for im in r["images"]:
                x = results.get(os.path.join(r["dir"], im["dir"]))
                if x is None:
                    vlib.tool_error("no recovery record for an image")
                images.append({"at": im["at"], "recovered": x["state"], "reopened": bool(x["reopened"])})
                nimg += 1
            f.write(json.dumps({"ev": "sched", "case": r["case"], "prop": prop, "timed_out": r["timed_out"], "ops": ops,
                                "queries": queries,
                                "s0": r["s0"], "served": r["served"], "images": images}) + "\n")
            shutil.rmtree(r["dir"], ignore_errors=True)
    try:
        res = vlib.tlc_trace("SchedTrace", trace, shards=12, timeout=7200)
    except vlib.ToolError as e:
        vlib.tool_error(str(e))
    rep.add_tlc(res)
    judged = 0
    rejected = {}
    runmap = {r["case"]: r for r in runs}
    # C15: the scheduling-point logs of the insert-only workloads as behaviours of Persist.tla
    # (spec/PersistTrace.tla): every image's real recovery must be exactly Persist!Recovered
    pt_cases = [r for r in runs if prop == "C15" and byc[r["case"]]["workload"] in PERSIST_WORKLOADS]
    pt_ok = set()
    if pt_cases:
        ptrace = os.path.join(wd, "ptrace.ndjson")
        with open(ptrace, "w") as f:
            for r in pt_cases:
                for ev in persist_events(byc[r["case"]], r, results):
                    f.write(json.dumps(ev) + "\n")
        try:
            pres = vlib.tlc_trace("PersistTrace", ptrace, shards=12, timeout=3600, unit_start='"ev": "reset"')
        except vlib.ToolError as e:
            vlib.tool_error(str(e))
        rep.add_tlc(pres)
        pt_ok = {ln[1] for ln in pres.lines if isinstance(ln, list) and ln and ln[0] == "CASEOK"}
        for r in pt_cases:
            judged += 1
            if r["case"] not in pt_ok:
                c = byc[r["case"]]
                rejected[(r["case"], "persist_protocol")] = (
                    {"case_input": c, "log": [e for e in r["log"] if e["ev"] != "grant"], "served": r["served"],
                     "events": persist_events(c, r, results)},
                    {"what": "persist_protocol", "note": "no behaviour of Persist.tla (Atomic) explains the logged scheduling points "
                                                         "and the recovered state of every crash image"},
                    {"wl." + c["workload"], "what.persist_protocol"})
        rep.cov["persist_protocol_cases"] = len(pt_cases)
        rep.cov["persist_protocol_accepted"] = len(pt_ok)
    # C15 / C17: the logs of drop_recreate as behaviours of KgLife.tla (spec/KgLifeTrace.tla)
    kl_cases = [r for r in runs if prop in ("C15", "C17") and byc[r["case"]]["workload"] == "drop_recreate"]
    if kl_cases:
        ktrace = os.path.join(wd, "ktrace.ndjson")
        with open(ktrace, "w") as f:
            for r in kl_cases:
                for ev in kglife_events(r, results):
                    f.write(json.dumps(ev) + "\n")
        try:
            kres = vlib.tlc_trace("KgLifeTrace", ktrace, shards=8, timeout=3600, unit_start='"ev": "reset"')
        except vlib.ToolError as e:
            vlib.tool_error(str(e))
        rep.add_tlc(kres)
        kl_ok = {ln[1] for ln in kres.lines if isinstance(ln, list) and ln and ln[0] == "CASEOK"}
        for r in kl_cases:
            judged += 1
            if r["case"] not in kl_ok:
                c = byc[r["case"]]
                rejected[(r["case"], "kg_lifecycle")] = (
                    {"case_input": c, "log": [e for e in r["log"] if e["ev"] != "grant"], "served": r["served"],
                     "events": kglife_events(r, results)},
                    {"what": "kg_lifecycle", "note": "no behaviour of KgLife.tla (Held) explains the logged events, the recovered "
                                                     "state of every crash image and the served state"},
                    {"wl.drop_recreate", "what.kg_lifecycle"})
        rep.cov["kg_lifecycle_cases"] = len(kl_cases)
        rep.cov["kg_lifecycle_accepted"] = len(kl_ok)
    for ln in res.lines:
        if isinstance(ln, list) and ln[0] == "VERDICT" and ln[1] == prop:
            judged += 1
            _, _, cid, j, ok, info = ln
            if not ok:
                c = byc[cid]
                preds = {"wl." + c["workload"], "what." + info.get("what", "")}
                if info.get("timed_out"):
                    preds.add("sched.timed_out")
                if any("Worker disconnected" in json.dumps(e.get("ret", "")) for e in runmap[cid]["log"] if e["ev"] == "ret"):
                    preds.add("obs.worker_disconnected")
                log = runmap[cid]["log"]
                # a flush that ran entirely between a writer's WAL append and its buffer insertion
                for thr in c["threads"]:
                    seqs = {e["at"]: e["seq"] for e in log if e["ev"] == "point" and e["thr"] == thr}
                    a, b = seqs.get("persist.append.after_wal"), seqs.get("persist.append.after_buffer")
                    fl = [e["seq"] for e in log if e["ev"] == "ret" and e["thr"] == "F"]
                    fs = [e["seq"] for e in log if e["ev"] == "point" and e["thr"] == "F" and e["at"] == "persist.flush.start"]
                    if a and b and fl and fs and a < fs[0] and fl[0] < b:
                        preds.add("sched.flush_between_wal_append_and_buffer_insert")
                # two writes whose WAL order is the reverse of the order in which they were applied in memory
                # (the in-memory application is the last step of a write: between se.write.after_persist and the return)
                wal = {e["thr"]: e["seq"] for e in log if e["ev"] == "point" and e["at"] == "persist.append.after_wal"}
                app = {e["thr"]: e["seq"] for e in log if e["ev"] == "ret" and e["thr"] in wal}
                if any(wal[x] < wal[y] and app[y] < app[x] for x in app for y in app if x != y):
                    preds.add("sched.apply_order_reverses_wal_order")
                key = (cid, info.get("what"))
                if key not in rejected:
                    rejected[key] = ({"case_input": c, "log": [e for e in log if e["ev"] != "grant"], "served": runmap[cid]["served"],
                                      "verdict_index": j}, info, preds)
    for key, (c, info, preds) in sorted(rejected.items(), key=lambda x: str(x[0])):
        rep.reject(c, info, preds)
    if judged == 0:
        vlib.tool_error("nothing judged")
    rep.cov.update({
        "evaluations": judged,
        "schedules": len(cases),
        "crash_images": nimg,
        "exhaustive_workloads": exhaustive,
        "distinct_nontrivial": len(cases),
        "rule": "workloads " + ", ".join(w for w, v in WORKLOADS.items() if prop in v[4]) + ": every interleaving of their threads at "
                "the scheduling points is enumerated by TLC (MC_Sched); all of them (or a seeded sample when there are more than the "
                "tier's budget) are forced on real threads; crash images at the end and at 2 random steps (thorough: every step); "
                "every schedule is a distinct non-trivial case (two or more threads interleaved)",
        "traces_validated_against_impl": len(cases),
        "samples": [{"workload": c["workload"], "schedule": c["schedule"], "threads": c["threads"]} for c in cases[:2]],
    })
    rep.assumptions += ["interleavings are explored at the granularity of the cfg-guarded scheduling points (between critical "
                        "sections of FilePersist::append/flush/compact and the StorageEngine write path)",
                        "crash images are M0 (no loss model): a copy of the directory while every thread is parked"]
    rep.cov["trusted_base"] += ["scheduling hooks src/verif_hooks.rs", "harness controller harness/src/sched.rs"]
    rep.finish()


if __name__ == "__main__":
    run(sys.argv[1], sys.argv[sys.argv.index("--replay") + 1] if "--replay" in sys.argv else None)

"""Engine `store-replay`: C11, C14, C17 (sequential part), C32 (storage-level part).

spec -> impl: TLC enumerates every history of length N of the abstract store
machine (spec/MC_Store.tla, model-checking its laws on the way) and prints
them; `ilv drive-store` replays each on a fresh real StorageEngine and records
the projected state after every step.  impl -> spec: seeded random longer
histories.  Both traces are judged step by step by spec/StoreTrace.tla.
"""
import json
import os
import sys

import vlib

# property -> (MC config for quick, for thorough, random quick, random thorough, focus, verdict tags)
PLAN = {
    "C11": ("MC_Store_single4", "MC_Store_single5", 300, 4000, "c11", ("C11",)),
    "C14": ("MC_Store_single3", "MC_Store_single4", 300, 3000, "c14", ("C14", "C11")),
    "C17": ("MC_Store_multi4", "MC_Store_multi5", 0, 0, "c17", ("C17", "C17i", "C11")),
    # C12: values are opaque tokens for the specification; the enumeration (all
    # ordered pairs of the value domain x {WAL-only, flushed, compacted}) is done
    # by the harness, MC_Store_single3 only supplies the short histories
    "C12": ("MC_Store_single3", "MC_Store_single3", 400, 5000, "c12", ("C12",)),
    # C19 (sequential part): random histories with incremental maintenance switched on early;
    # after every step a consistent read of each relation from the incremental engine is recorded
    "C19": (None, None, 600, 8000, "c19", ("C19",)),
}


def emit_histories(cfg_name, out_path, rep):
    res, out, violated = vlib.tlc_model("MC_Store", cfg_name=cfg_name, workers=4, timeout=1800)
    if violated:
        vlib.tool_error(f"abstract store machine violates its own laws in {cfg_name} (specification bug)")
    rep.add_tlc(res)
    n = 0
    with open(out_path, "w") as f:
        for ln in res.lines:
            if isinstance(ln, dict) and ln.get("ev") == "hist":
                f.write(json.dumps(ln) + "\n")
                n += 1
    if n == 0:
        vlib.tool_error(f"{cfg_name} emitted no history")
    return n, res


def history_preds(ops_upto):
    """Signature predicates of a history prefix (the failing step is the last)."""
    P = set()
    present = {}
    for op in ops_upto:
        k = op["k"]
        key = (op.get("kg"), op.get("rel"))
        cur = present.setdefault(key, set())
        if k == "ins":
            ts = [json.dumps(t) for t in op["tuples"]]
            if any(t in cur for t in ts):
                P.add("hist.insert_present")
            if len(ts) != len(set(ts)):
                P.add("hist.insert_batch_dup")
            cur.update(ts)
        elif k == "del":
            ts = [json.dumps(t) for t in op["tuples"]]
            if any(t not in cur for t in ts):
                P.add("hist.delete_absent")
            cur.difference_update(ts)
        elif k in ("save", "compact", "save_all"):
            P.add("hist.has_" + k)
        elif k in ("restart", "restart_nosave"):
            P.add("hist.has_restart")
        elif k in ("create", "drop", "rule"):
            P.add("hist.has_" + k)
    P.add("step." + ops_upto[-1]["k"])
    # value-kind predicates (C12): per relation column, over every attempted insert
    cols = {}
    for op in ops_upto:
        if op["k"] == "ins":
            for tup in op["tuples"]:
                for i, v in enumerate(tup):
                    cols.setdefault((op.get("kg"), op.get("rel"), i), []).append(v)
    for vals in cols.values():
        kinds = {v[0] for v in vals}
        if len(kinds) > 1:
            P.add("col.kinds_differ")
        for k in kinds:
            P.add("value.has_" + k)
        for vk in ("v", "v8"):
            dims = {len(v[1]) for v in vals if v[0] == vk}
            if len(dims) > 1:
                P.add("col.vector_dims_differ")
            if 0 in dims:
                P.add("value.empty_vector")
    return P


def batch_preds(ops_upto, cfg):
    """C12: which batches the history makes the persistence layer write.  A shard's buffer is
    written as one batch when it reaches buffer_size or at save / compact / restart; a batch file
    types each column after the batch's first row; compaction rewrites the whole shard as one
    batch after sorting it.  The predicates name the batch shapes the known findings are about."""
    P = set()
    bs = int(cfg.get("buffer_size", 10000))
    buf = {}      # shard -> rows waiting in the buffer
    disk = {}     # shard -> rows in batch files

    def kinds_by_col(rows):
        cols = {}
        for r in rows:
            for i, v in enumerate(r):
                cols.setdefault(i, []).append(v[0])
        return cols

    def flush(key):
        rows = buf.get(key, [])
        if not rows:
            return
        for ks in kinds_by_col(rows).values():
            if ks[0] == "n":
                P.add("batch.column_starts_with_null")
            if ks[0] in ("v", "v8") and "n" in ks:
                P.add("batch.null_in_vector_column")
            if len({k for k in ks if k != "n"}) > 1:
                P.add("batch.two_nonnull_kinds")
        disk.setdefault(key, []).extend(rows)
        buf[key] = []

    for op in ops_upto:
        k = op["k"]
        key = (op.get("kg"), op.get("rel"))
        if k in ("ins", "del"):
            buf.setdefault(key, []).extend(op["tuples"])
            if len(buf[key]) >= bs:
                flush(key)
        elif k in ("save", "save_all", "restart", "restart_nosave", "compact"):
            if k == "restart_nosave" and cfg.get("durability", "immediate") == "immediate":
                # nothing was flushed before the shutdown: the rows still in the buffers come back by WAL
                # replay (which then drains them into batches)
                for rows in buf.values():
                    for r in rows:
                        for v in r:
                            if v[0] == "f" and (int(v[1][5:], 16) >> 52) & 0x7FF == 0x7FF:
                                P.add("wal.replay_of_nonfinite_float")
                            if v[0] == "v" and any((int(x[5:], 16) >> 23) & 0xFF == 0xFF for x in v[1] if isinstance(x, str)):
                                P.add("wal.replay_of_nonfinite_float")
            for key2 in list(buf):
                flush(key2)
            if k == "compact":
                for rows in disk.values():
                    for ks in kinds_by_col(rows).values():
                        if len(set(ks)) > 1:
                            P.add("compact.column_kinds_differ")
    return P


def run(prop, replay=None):
    t = vlib.tier()
    rep = vlib.Report(prop)
    wd = vlib.workdir(prop)
    vlib.build_harness()
    mcq, mct, rq, rt, focus, tags = PLAN[prop]
    trace = os.path.join(wd, "trace.ndjson")
    root = os.path.join(wd, "data")
    nhist = 0
    exhaustive = False
    if replay:
        with open(replay) as f:
            c = json.load(f)
        hist = os.path.join(wd, "hist.ndjson")
        with open(hist, "w") as f:
            f.write(json.dumps({"ev": "hist", "ops": c["ops"]}) + "\n")
        vlib.ilv(["drive-store", "--hist", hist, "--focus", focus, "--out", trace, "--root", root])
    else:
        hist = os.path.join(wd, "hist.ndjson")
        args = ["drive-store", "--focus", focus, "--out", trace, "--root", root, "--seed", vlib.seed(), "--threads", 14]
        if mcq:
            nhist, _ = emit_histories(mct if t == "thorough" else mcq, hist, rep)
            exhaustive = True
            args += ["--hist", hist]
        nr = rt if t == "thorough" else rq
        if nr:
            args += ["--random", nr]
        if prop == "C12":
            args += ["--pairs", "full" if t == "thorough" else "quick"]
        vlib.ilv(args, timeout=7200)
    try:
        res = vlib.tlc_trace("StoreTrace", trace, shards=12, timeout=7200, unit_start='"ev":"reset"')
    except vlib.ToolError as e:
        vlib.tool_error(str(e))
    rep.add_tlc(res)
    # index the trace
    cases = {}
    with open(trace) as f:
        for line in f:
            r = json.loads(line)
            if r["ev"] == "openfail":
                vlib.tool_error("fresh store failed to open: " + r["err"])
            c = cases.setdefault(r["case"], {"ops": [], "recs": [], "cfg": None, "kind": r.get("kind")})
            if r["ev"] == "hang":
                c["cfg"] = r["cfg"]
                c["ops"] = r["ops"]
                c["hang"] = True
            elif r["ev"] == "reset":
                c["cfg"] = r["cfg"]
            else:
                c["ops"].append(r["op"])
                c["recs"].append(r)
    judged = 0
    nontriv = set()
    rejected_cases = {}
    for ln in res.lines:
        if not (isinstance(ln, list) and ln[0] == "VERDICT"):
            continue
        _, tag, cid, step, ok, info = ln
        if tag == "HANG":
            c = cases[cid]
            judged += 1
            preds = history_preds(c["ops"]) | {"obs.hang", "cfg.buffer_%s" % c["cfg"]["buffer_size"]}
            rejected_cases[cid] = ({"ops": c["ops"], "cfg": c["cfg"], "observed": "engine never returned (watchdog)"},
                                   info, preds)
            continue
        if tag not in tags:
            continue
        # C14 owns maintenance steps; restart steps in a C14 run are judged only
        # when a maintenance step precedes them in the history
        c = cases[cid]
        upto = c["ops"][:step]
        if prop == "C14" and tag == "C11" and not any(o["k"] in ("save", "compact") for o in upto):
            continue
        if prop == "C17" and tag == "C11" and not any(o["k"] in ("create", "drop") for o in upto):
            continue
        judged += 1
        if any(o["k"] in ("ins", "del") for o in upto):
            nontriv.add((cid, step))
        if not ok and cid not in rejected_cases:
            preds = history_preds(upto)
            preds.add("cfg.buffer_%s" % c["cfg"]["buffer_size"])
            preds.add("cfg.durability_%s" % c["cfg"]["durability"])
            if c["cfg"]["max_wal"]:
                preds.add("cfg.max_wal_small")
            preds.add("tag." + tag)
            if prop == "C12":
                preds |= batch_preds(upto, c["cfg"])
            rejected_cases[cid] = ({"ops": upto, "cfg": c["cfg"], "observed": c["recs"][step - 1]["state"],
                                    "before": (c["recs"][step - 2]["state"] if step > 1 else None)}, info, preds)
    for cid, (case, info, preds) in sorted(rejected_cases.items()):
        rep.reject(case, info, preds)
    if judged == 0:
        vlib.tool_error("no step of this property was judged (vacuous run)")
    sample = []
    for cid in list(cases)[:2]:
        sample.append({"cfg": cases[cid]["cfg"], "ops": cases[cid]["ops"],
                       "final_state": cases[cid]["recs"][-1]["state"] if cases[cid]["recs"] else None})
    rep.cov.update({
        "evaluations": sum(len(c["ops"]) for c in cases.values()),
        "histories": len(cases),
        "exhaustive_histories": nhist,
        "exhaustive": False,
        "judged_steps": judged,
        "distinct_nontrivial": len(nontriv),
        "rule": "every history of length N over the MC_Store alphabet (TLC-enumerated, exhaustive for that N, filtered "
                "to histories with a write followed by a restart/maintenance step) plus seeded random histories of "
                "length 4-14 over 2 relations x 4 tuples; each history runs on a fresh data directory; a judged step is "
                "non-trivial if a write precedes it; distinct = distinct (history, step)",
        "traces_validated_against_impl": len(cases),
        "samples": sample,
        "model": (mct if t == "thorough" else mcq),
    })
    rep.assumptions += ["single client (sequential histories); clean shutdown = dropping the engine",
                        "relation contents observed through execute_query_tuples_on"]
    rep.finish()


if __name__ == "__main__":
    run(sys.argv[1], sys.argv[sys.argv.index("--replay") + 1] if "--replay" in sys.argv else None)

"""Engine `laws`: C31 (value order laws on the real comparison matrices) and
C36 (bloom filter / hash index histories), judged by spec/ValuesTrace.tla and
spec/IndexTrace.tla."""
import json
import os
import sys

import vlib


def run_c31():
    rep = vlib.Report("C31")
    wd = vlib.workdir("C31")
    vlib.build_harness()
    trace = os.path.join(wd, "values.ndjson")
    vlib.ilv(["dump-values", "--out", trace])
    recs = [json.loads(l) for l in open(trace)]
    try:
        res = vlib.tlc_trace("ValuesTrace", trace, shards=1, timeout=1800)
    except vlib.ToolError as e:
        vlib.tool_error(str(e))
    rep.add_tlc(res)
    n = 0
    for ln in res.lines:
        if ln[0] == "VERDICT":
            n += 1
            _, _, what, ok, laws = ln
            if not ok:
                preds = {"what." + what} | {"law." + k for k in ("refl", "antisym", "eqcons", "hash", "eqsym", "trans") if laws[k]}
                rep.reject({"what": what, "laws": laws}, laws, preds)
    if n != 2:
        vlib.tool_error("ValuesTrace judged %d of 2 matrices" % n)
    nv, nt = len(recs[0]["names"]), len(recs[1]["names"])
    rep.cov.update({
        "evaluations": nv ** 3 + nt ** 3,
        "distinct_nontrivial": nv + nt,
        "exhaustive": True,
        "rule": "all pairs and all triples of a %d-value domain (every kind; 0.0, -0.0, three NaN payloads, +-inf, subnormal; both "
                "integer widths with equal numbers; empty/non-empty strings and vectors; independently built equal values) and of "
                "%d tuples of arity 1-2 over an 8-value sub-domain; distinct = domain elements" % (nv, nt),
        "traces_validated_against_impl": 2,
        "samples": [recs[0]["names"][:6], recs[1]["names"][:4]],
    })
    rep.assumptions += ["hash equality observed through std DefaultHasher on the Hash implementation"]
    rep.finish()


def run_c36():
    t = vlib.tier()
    rep = vlib.Report("C36")
    wd = vlib.workdir("C36")
    vlib.build_harness()
    trace = os.path.join(wd, "idx.ndjson")
    n = int(os.environ.get("VERIF_N", {"quick": 1500, "thorough": 30000}[t]))
    vlib.ilv(["drive-indexes", "--out", trace, "--n", n, "--seed", vlib.seed()], timeout=3600)
    try:
        res = vlib.tlc_trace("IndexTrace", trace, shards=12, timeout=3600, unit_start='_new"')
    except vlib.ToolError as e:
        vlib.tool_error(str(e))
    rep.add_tlc(res)
    cases = {}
    with open(trace) as f:
        for line in f:
            r = json.loads(line)
            cases.setdefault(r["case"], []).append(r)
    judged, nontriv, rejected = 0, set(), {}
    for ln in res.lines:
        if ln[0] == "VERDICT":
            judged += 1
            _, _, cid, pos, ok, info = ln
            if info.get("ev") in ("hi_lookup", "bloom_query") and (info.get("want", 0) or info.get("member")):
                nontriv.add((cid, pos))
            if not ok and cid not in rejected:
                preds = {"ev." + info.get("ev", "")}
                first = cases[cid][0]
                if first["ev"] == "bloom_new":
                    preds.add("bloom.%s_%s_%s" % (first["how"], first["bits"], first["hashes"]))
                    if first["how"] == "params" and (first["bits"] == 0 or first["hashes"] == 0):
                        preds.add("bloom.degenerate_params")
                rejected[cid] = ({"calls": cases[cid]}, info, preds)
    for cid, (c, info, preds) in sorted(rejected.items()):
        rep.reject(c, info, preds)
    if judged == 0:
        vlib.tool_error("nothing judged")
    rep.cov.update({
        "evaluations": judged,
        "histories": len(cases),
        "distinct_nontrivial": len(nontriv),
        "rule": "seeded histories: bloom filters built with_params (0/0, 1/1, random, 8/0) or new(n, rate) incl. degenerate values, "
                "3-13 inserts/clears/queries over keys of every value kind; hash indexes on column 1 or columns 1,2 with 4-15 "
                "inserts/removes/rebuilds/lookups (get, get_with_bloom, probe, might_contain_key); a judged lookup is non-trivial if "
                "the abstract machine holds a matching key; distinct = (history, position)",
        "traces_validated_against_impl": len(cases),
        "samples": [cases[k][:5] for k in list(cases)[:2]],
    })
    rep.finish()


def run_vec(prop):
    t = vlib.tier()
    rep = vlib.Report(prop)
    wd = vlib.workdir(prop)
    vlib.build_harness()
    trace = os.path.join(wd, "vec.ndjson")
    n = int(os.environ.get("VERIF_N", {"quick": 700, "thorough": 15000}[t]))
    vlib.ilv(["drive-vecindex", "--out", trace, "--n", n, "--seed", vlib.seed(), "--root", os.path.join(wd, "ix")], timeout=7200)
    try:
        res = vlib.tlc_trace("VecIndexTrace", trace, shards=12, timeout=7200, unit_start='"ev":"new"')
    except vlib.ToolError as e:
        vlib.tool_error(str(e))
    rep.add_tlc(res)
    cases = {}
    with open(trace) as f:
        for line in f:
            r = json.loads(line)
            cases.setdefault(r["case"], []).append(r)
    judged, nontriv, rejected = 0, set(), {}
    for ln in res.lines:
        if ln[0] == "VERDICT" and ln[1] == prop:
            judged += 1
            _, _, cid, pos, ok, info = ln
            if info.get("live", 0) > 0:
                nontriv.add((cid, pos))
            if not ok and cid not in rejected:
                calls = cases[cid]
                preds = {"ev." + info.get("ev", "")}
                seen_del, reins = set(), False
                for c in calls:
                    if c["ev"] == "delete":
                        seen_del.add(c["id"])
                    if c["ev"] == "insert" and c["id"] in seen_del:
                        reins = True
                if seen_del:
                    preds.add("hist.has_delete")
                if reins:
                    preds.add("hist.reinsert_after_delete")
                preds.add("metric." + calls[0]["obs"]["metric"])
                preds.add("cfg.m_%d" % calls[0]["obs"]["m"])
                if info.get("got", 0) < min(info.get("k", 0), info.get("live", 0)) and info.get("ids") and info.get("dist"):
                    preds.add("search.too_few_results")
                for k in ("ids", "order", "dist", "full"):
                    if info.get(k) is False:
                        preds.add("search.bad_" + k)
                rejected[cid] = ({"calls": calls}, info, preds)
    for cid, (c, info, preds) in sorted(rejected.items()):
        rep.reject(c, info, preds)
    if judged == 0:
        vlib.tool_error("nothing judged")
    rep.cov.update({
        "evaluations": judged,
        "histories": len(cases),
        "distinct_nontrivial": len(nontriv),
        "rule": "seeded histories of 4-22 calls (insert / update of an existing id, delete, rebuild, save+load, search with k 1-6 and "
                "ef in {default, k, 20, 100}) on a real HnswIndex, all four metrics, dims 1-5, integer coordinates -4..4 (5% zero "
                "vectors), ids 1..10; a judged call is non-trivial if the abstract index is non-empty; distinct = (history, position)",
        "traces_validated_against_impl": len(cases),
        "samples": [cases[k][:4] for k in list(cases)[:2]],
    })
    rep.assumptions += ["numeric agreement of distances is checked to about 1e-2 through integer inequalities (TLC has no reals)",
                        "dot-product distances are only checked for ordering"]
    rep.finish()


def run_c26():
    t = vlib.tier()
    rep = vlib.Report("C26")
    wd = vlib.workdir("C26")
    vlib.build_harness()
    trace = os.path.join(wd, "ops.ndjson")
    n = int(os.environ.get("VERIF_N", {"quick": 600, "thorough": 12000}[t]))
    vlib.ilv(["drive-vecops", "--out", trace, "--n", n, "--seed", vlib.seed()], timeout=7200)
    try:
        res = vlib.tlc_trace("LawsTrace", trace, shards=12, timeout=7200, unit_start='"ev":"case"')
    except vlib.ToolError as e:
        vlib.tool_error(str(e))
    rep.add_tlc(res)
    recs = {}
    with open(trace) as f:
        for i, line in enumerate(f):
            r = json.loads(line)
            recs.setdefault(r["case"], []).append(r)
    judged, nontriv, rejected = 0, set(), {}
    kinds = {}
    for ln in res.lines:
        if ln[0] == "VERDICT":
            judged += 1
            _, _, cid, pos, ok, info = ln
            kinds[info["ev"]] = kinds.get(info["ev"], 0) + 1
            if info["ev"] != "bucket" or info.get("seen"):
                nontriv.add((cid, pos))
            if not ok:
                key = (cid, info["ev"])
                if key not in rejected:
                    preds = {"ev." + info["ev"]}
                    if info["ev"] == "bucket" and info.get("thr"):
                        preds.add("lsh.concurrent")
                    if info["ev"] == "dist":
                        preds.add("dist." + info["f"])
                    rejected[key] = ({"case": cid, "records": [r for r in recs[cid] if r["ev"] in (info["ev"], "cache")][:40]},
                                     info, preds)
    for key, (c, info, preds) in sorted(rejected.items()):
        rep.reject(c, info, preds)
    for k in ("bucket", "probes", "dist", "quant"):
        if not kinds.get(k):
            vlib.tool_error("no %s record was judged (vacuous)" % k)
    rep.cov.update({
        "evaluations": judged,
        "distinct_nontrivial": len(nontriv),
        "by_kind": kinds,
        "rule": "per case: 6-20 sequential bucket calls over a pool of 4 vectors x 3 tables x {1,4,8,12} hyperplanes interleaved with "
                "cache clear / resize (0,1,2,64) / prewarm, every third case also 3 concurrent callers plus a thread clearing and "
                "resizing the cache; 3 probe sequences; 4 vector pairs (integer coordinates -4..4 or -1000..1000, zero vectors, equal "
                "pairs) through euclidean/cosine/manhattan; symmetric and linear int8 quantisation; a bucket call is non-trivial when its "
                "key was seen before (the purity claim applies), every other judged record is non-trivial",
        "traces_validated_against_impl": len(recs),
        "samples": [recs[k][:3] for k in list(recs)[:2]],
    })
    rep.assumptions += ["distance laws are judged on sign/zero/range classes and bit-pattern equality; quantisation on integer-valued "
                        "inputs through integer inequalities (TLC has no reals)"]
    rep.finish()


def run(prop, replay=None):
    if prop == "C26":
        return run_c26()
    if prop == "C31":
        run_c31()
    elif prop == "C36":
        run_c36()
    else:
        run_vec(prop)


if __name__ == "__main__":
    run(sys.argv[1])

"""Engine `laws`: C31 (value order laws on the real comparison matrices) and
C36 (bloom filter / hash index histories), judged by spec/ValuesTrace.tla and
spec/IndexTrace.tla."""
import json
import os
import sys

import vlib


def run_c31():
    rep = vlib.Report("C31")
    wd = vlib.workdir("C31")
    vlib.build_harness()
    trace = os.path.join(wd, "values.ndjson")
    vlib.ilv(["dump-values", "--out", trace])
    recs = [json.loads(l) for l in open(trace)]
    try:
        res = vlib.tlc_trace("ValuesTrace", trace, shards=1, timeout=1800)
    except vlib.ToolError as e:
        vlib.tool_error(str(e))
    rep.add_tlc(res)
    n = 0
    for ln in res.lines:
        if ln[0] == "VERDICT":
            n += 1
            _, _, what, ok, laws = ln
            if not ok:
                preds = {"what." + what} | {"law." + k for k in ("refl", "antisym", "eqcons", "hash", "eqsym", "trans") if laws[k]}
                rep.reject({"what": what, "laws": laws}, laws, preds)
    if n != 2:
        vlib.tool_error("ValuesTrace judged %d of 2 matrices" % n)
    nv, nt = len(recs[0]["names"]), len(recs[1]["names"])
    rep.cov.update({
        "evaluations": nv ** 3 + nt ** 3,
        "distinct_nontrivial": nv + nt,
        "exhaustive": True,
        "rule": "all pairs and all triples of a %d-value domain (every kind; 0.0, -0.0, three NaN payloads, +-inf, subnormal; both "
                "integer widths with equal numbers; empty/non-empty strings and vectors; independently built equal values) and of "
                "%d tuples of arity 1-2 over an 8-value sub-domain; distinct = domain elements" % (nv, nt),
        "traces_validated_against_impl": 2,
        "samples": [recs[0]["names"][:6], recs[1]["names"][:4]],
    })
    rep.assumptions += ["hash equality observed through std DefaultHasher on the Hash implementation"]
    rep.finish()


def run_c36():
    t = vlib.tier()
    rep = vlib.Report("C36")
    wd = vlib.workdir("C36")
    vlib.build_harness()
    trace = os.path.join(wd, "idx.ndjson")
    n = int(os.environ.get("VERIF_N", {"quick": 1500, "thorough": 30000}[t]))
    vlib.ilv(["drive-indexes", "--out", trace, "--n", n, "--seed", vlib.seed()], timeout=3600)
    try:
        res = vlib.tlc_trace("IndexTrace", trace, shards=12, timeout=3600, unit_start='_new"')
    except vlib.ToolError as e:
        vlib.tool_error(str(e))
    rep.add_tlc(res)
    cases = {}
    with open(trace) as f:
        for line in f:
            r = json.loads(line)
            cases.setdefault(r["case"], []).append(r)
    judged, nontriv, rejected = 0, set(), {}
    for ln in res.lines:
        if ln[0] == "VERDICT":
            judged += 1
            _, _, cid, pos, ok, info = ln
            if info.get("ev") in ("hi_lookup", "bloom_query") and (info.get("want", 0) or info.get("member")):
                nontriv.add((cid, pos))
            if not ok and cid not in rejected:
                preds = {"ev." + info.get("ev", "")}
                first = cases[cid][0]
                if first["ev"] == "bloom_new":
                    preds.add("bloom.%s_%s_%s" % (first["how"], first["bits"], first["hashes"]))
                    if first["how"] == "params" and (first["bits"] == 0 or first["hashes"] == 0):
                        preds.add("bloom.degenerate_params")
                rejected[cid] = ({"calls": cases[cid]}, info, preds)
    for cid, (c, info, preds) in sorted(rejected.items()):
        rep.reject(c, info, preds)
    if judged == 0:
        vlib.tool_error("nothing judged")
    rep.cov.update({
        "evaluations": judged,
        "histories": len(cases),
        "distinct_nontrivial": len(nontriv),
        "rule": "seeded histories: bloom filters built with_params (0/0, 1/1, random, 8/0) or new(n, rate) incl. degenerate values, "
                "3-13 inserts/clears/queries over keys of every value kind; hash indexes on column 1 or columns 1,2 with 4-15 "
                "inserts/removes/rebuilds/lookups (get, get_with_bloom, probe, might_contain_key); a judged lookup is non-trivial if "
                "the abstract machine holds a matching key; distinct = (history, position)",
        "traces_validated_against_impl": len(cases),
        "samples": [cases[k][:5] for k in list(cases)[:2]],
    })
    rep.finish()


def run(prop, replay=None):
    if prop == "C31":
        run_c31()
    else:
        run_c36()


if __name__ == "__main__":
    run(sys.argv[1])

"""Engine `datalog-oracle`: C01, C02, C03, C04, C06, C07, C08 (DESIGN 7).

impl -> spec: generated programs run on the real IQLEngine, every recorded
case is judged by TLC against spec/EngineTrace.tla (which evaluates the
stratified least model, spec/Datalog.tla, on the same JSON).
"""
import json
import os
import sys

import vlib

FOCUS = {"C01": "c01", "C02": "c02", "C03": "c03", "C04": "c04", "C06": "c06", "C07": "all", "C08": "c08"}
N = {  # cases per tier
    "quick": {"C01": 1500, "C02": 400, "C03": 1200, "C04": 500, "C06": 400, "C07": 250, "C08": 600},
    "thorough": {"C01": 40000, "C02": 6000, "C03": 20000, "C04": 8000, "C06": 6000, "C07": 4000, "C08": 10000},
}


def lits(c):
    return c["b"]


def preds_of(case):
    """Signature predicates of a case (evaluated on the case, never on the code)."""
    P = set()
    prog = case["prog"]
    edges = set()
    for c in prog:
        for l in lits(c):
            if l["k"] in ("pos", "neg"):
                edges.add((c["h"]["r"], l["r"]))
    reach = set(edges)
    while True:
        add = {(a, d) for (a, b) in reach for (c, d) in edges if b == c} - reach
        if not add:
            break
        reach |= add
    rels = {c["h"]["r"] for c in prog}
    if any((a, a) in reach for a in rels):
        P.add("prog.recursive")
    if any((a, b) in reach and (b, a) in reach and a != b for a in rels for b in rels):
        P.add("prog.has_scc_ge2")
    byhead = {}
    for c in prog:
        byhead.setdefault(c["h"]["r"], []).append(c)
    for h, cs in byhead.items():
        if len(cs) >= 2:
            P.add("prog.head_with_ge2_clauses")
        if len(cs) >= 2 and sum(1 for c in cs if sum(1 for l in lits(c) if l["k"] == "pos") >= 2) >= 1:
            P.add("prog.union_with_join_clause")
        if len(cs) >= 2 and sum(1 for c in cs if sum(1 for l in lits(c) if l["k"] == "pos") >= 2) >= 2:
            P.add("prog.head_with_ge2_join_clauses")
    for c in prog:
        npos = sum(1 for l in lits(c) if l["k"] == "pos")
        if npos >= 2:
            P.add("prog.has_join")
        if npos >= 3:
            P.add("prog.has_join3")
        for l in lits(c):
            if l["k"] == "neg":
                P.add("prog.has_neg")
                if any(a["t"] == "_" for a in l["a"]):
                    P.add("prog.neg_with_wildcard")
                if any(a["t"] == "c" for a in l["a"]):
                    P.add("prog.neg_with_const")
            if l["k"] == "asg":
                P.add("prog.has_asg")
            if l["k"] == "cmp":
                P.add("prog.has_cmp")
            if l["k"] == "pos":
                names = [a["n"] for a in l["a"] if a["t"] == "v"]
                if len(names) != len(set(names)):
                    P.add("prog.atom_repeats_var")
                if any(a["t"] == "_" for a in l["a"]):
                    P.add("prog.has_wildcard")
                if any(a["t"] == "c" for a in l["a"]):
                    P.add("prog.body_const")
                if l["r"] == c["h"]["r"]:
                    P.add("prog.self_recursive")
        if sum(1 for l in lits(c) if l["k"] == "pos" and l["r"] == c["h"]["r"]) >= 2:
            P.add("prog.nonlinear_recursion")
        # a recursive clause that is more than the plain two-atom closure shape p <- p, e
        if any(l["k"] == "pos" and l["r"] == c["h"]["r"] for l in lits(c)) and (
                any(l["k"] in ("neg", "cmp") for l in lits(c)) or sum(1 for l in lits(c) if l["k"] == "pos") >= 3):
            P.add("prog.recursive_clause_not_plain")
        for l in lits(c):
            if l["k"] == "cmp" and l["op"] == "=":
                P.add("prog.cmp_eq")
        if any(a["t"] == "agg" for a in c["h"]["a"]):
            if any(l["k"] in ("cmp", "asg") for l in lits(c)):
                P.add("prog.agg_with_cmp")
            if any(l["k"] == "pos" and any(a["t"] == "_" for a in l["a"]) for l in lits(c)):
                P.add("prog.agg_with_wildcard")
            P.add("prog.has_agg")
            for a in c["h"]["a"]:
                if a["t"] == "agg":
                    P.add("agg." + a["f"])
        hv = [a["n"] for a in c["h"]["a"] if a["t"] == "v"]
        if len(hv) != len(set(hv)):
            P.add("prog.head_repeats_var")
        if any(a["t"] == "c" for a in c["h"]["a"]):
            P.add("prog.head_const")
    if len(prog) > 1:
        P.add("prog.rules_gt1")
    if len(rels) > 1:
        P.add("prog.heads_gt1")
    return P


def verdict_preds(prop, info):
    P = set()
    if prop == "C02":
        for k in ("jp", "sip", "ss", "bs", "ms"):
            v = info.get(k, [])
            if v == [1]:
                P.add(f"differs.only_when_{k}_on")
            if v == [0]:
                P.add(f"differs.only_when_{k}_off")
    if prop == "C03":
        P.add("cfg.workers_gt1")
    if prop == "C08":
        P.add("cfg.limit_gt0")
    if prop == "C01":
        if info.get("ok") is False:
            P.add("res.err")
        if info.get("defgood") is False:
            P.add("default.wrong")
        if info.get("offgood") is False:
            P.add("alloff.wrong")
        if info.get("defgood") is True:
            P.add("default.right")
    if prop == "C06":
        bad = info.get("bad", [])
        if len(bad) == 32:
            P.add("bad.every_setting")
        for k in ("jp", "sip", "ss", "bs", "ms"):
            vals = {b[k] for b in bad}
            if vals == {1}:
                P.add(f"bad.only_when_{k}_on")
            if vals == {0}:
                P.add(f"bad.only_when_{k}_off")
        if not any(b["jp"] and b["sip"] and b["ss"] and b["bs"] and b["ms"] for b in bad):
            P.add("default.right")
    if prop == "C04":
        for t in info.get("ans", []):
            P.add("differs." + t)
        if info.get("base"):
            P.add("base_changed")
    return P


def run(prop, replay=None):
    t = vlib.tier()
    rep = vlib.Report(prop)
    wd = vlib.workdir(prop)
    vlib.build_harness()
    trace = os.path.join(wd, "trace.ndjson")
    if replay:
        with open(replay) as f:
            c = json.load(f)
        for k in ("_verdict", "_preds", "_property"):
            c.pop(k, None)
        # re-run the recorded program on the current tree
        with open(os.path.join(wd, "in.ndjson"), "w") as f:
            f.write(json.dumps(c) + "\n")
        vlib.ilv(["replay-engine", "--in", os.path.join(wd, "in.ndjson"), "--out", trace])
    else:
        if prop == "C04":
            # the oracle's own laws, exhaustively for every program of <= 2 clauses over a 56-clause universe
            # and every database over two unary relations (spec/MC_Datalog.tla): the model is a supported
            # model, independent of clause order and of duplicated clauses, monotone for negation-free programs
            mres, mout, violated = vlib.tlc_model("MC_Datalog", workers=8, timeout=3000)
            if violated:
                vlib.tool_error("Datalog.tla violates its own meta-properties (MC_Datalog): the oracle is wrong")
            rep.add_tlc(mres)
            rep.cov["oracle_meta_check"] = "MC_Datalog: 51072 (program, database) pairs, 7 invariants, no violation"
        n = int(os.environ.get("VERIF_N", N[t][prop]))
        vlib.ilv(["drive-engine", "--n", n, "--seed", vlib.seed(), "--focus", FOCUS[prop], "--out", trace],
                 timeout=7200)
    try:
        res = vlib.tlc_trace("EngineTrace", trace, shards=12 if t == "thorough" else 8,
                             timeout=7200 if t == "thorough" else 1500)
    except vlib.ToolError as e:
        vlib.tool_error(str(e))
    rep.add_tlc(res)
    cases = {}
    with open(trace) as f:
        for line in f:
            r = json.loads(line)
            cases[r["case"]] = r
    info_case = {}
    nontriv = set()
    seen_text = set()
    gen_bad = 0
    for ln in res.lines:
        if ln[0] == "CASE":
            _, cid, card, strat, safe, qagg = ln
            info_case[cid] = (card, strat, safe, qagg)
            if not strat or not safe:
                gen_bad += 1
            key = cases[cid]["text"] + json.dumps(cases[cid]["edb"], sort_keys=True)
            if card > 0 and key not in seen_text:
                if prop != "C06" or qagg:
                    nontriv.add(cid)
            seen_text.add(key)
    if gen_bad:
        vlib.tool_error(f"generator produced {gen_bad} unstratified/unsafe programs (spec and generator disagree)")
    if len(info_case) != len(cases):
        vlib.tool_error(f"TLC judged {len(info_case)} of {len(cases)} cases")
    judged = 0
    for ln in res.lines:
        if ln[0] == "VERDICT" and ln[1] == prop:
            judged += 1
            _, _, cid, ok, info = ln
            if not ok:
                c = cases[cid]
                rep.reject(c, info, preds_of(c) | verdict_preds(prop, info))
    if judged == 0:
        vlib.tool_error(f"no {prop} verdicts: the trace carried no run for this property (vacuous)")
    runs = sum(len(c["runs"]) for c in cases.values())
    samples = [{"text": c["text"], "edb": c["edb"], "runs": len(c["runs"]),
                "default_result": c["runs"][0]["res"]} for c in list(cases.values())[:3]]
    rep.cov.update({
        "evaluations": runs,
        "cases": len(cases),
        "judged_cases": judged,
        "distinct_nontrivial": len(nontriv),
        "rule": "seeded random stratified safe programs (<=4 IDB relations, <=3 clauses each, arity<=3, joins, "
                "constants, comparisons, integer assignments, stratified negation, self/mutual recursion, "
                "non-recursive aggregates) over random EDBs on {0..3}/{a,b,c}; a case is non-trivial if its "
                "least model (computed by TLC) gives the query relation at least one tuple"
                + (" and the query head has an aggregate" if prop == "C06" else "")
                + "; distinct = distinct (program text, EDB)",
        "traces_validated_against_impl": len(cases),
        "samples": samples,
    })
    rep.assumptions += [
        "integers only in arithmetic/comparisons, strings only in equality positions",
        "query relation = last head by first occurrence (engine convention)",
    ]
    rep.finish()


if __name__ == "__main__":
    prop = sys.argv[1]
    replay = None
    if "--replay" in sys.argv:
        replay = sys.argv[sys.argv.index("--replay") + 1]
    run(prop, replay)

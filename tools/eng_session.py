"""Engine `session`: C10 (session state is isolated).

spec -> impl: spec/MC_Session.tla enumerates every interleaving (request
granularity) of the scripts of 2-3 sessions, a persistent writer and a
request-local program, model-checking the isolation statements of
spec/Session.tla on the way; each interleaving is submitted to a real Handler by
`ilv drive-handler`.  impl -> spec: seeded random scripts and interleavings.
Every observed step is judged by spec/SessionTrace.tla: the whole observed
state (persistent facts/rules, every session's ephemeral facts/rules) must be
that of the Session machine, and every query answer must be Datalog!Answer over
the persistent data plus that session's own facts and rules.
"""
import json
import os
import random
import sys
from concurrent.futures import ThreadPoolExecutor

import vlib

KG = "g"


def V(n):
    return {"t": "v", "n": n}


def atom(kind, rel, args):
    return {"k": kind, "r": rel, "a": [V(a) for a in args]}


def rule(head, hargs, body):
    text = f"{head}({', '.join(hargs)}) <- " + ", ".join(("!" if k == "neg" else "") + f"{r}({', '.join(a)})" for k, r, a in body)
    ast = {"h": {"r": head, "a": [V(a) for a in hargs]}, "b": [atom(k, r, a) for k, r, a in body]}
    return {"text": text, "ast": ast}


# every subset of these rules is stratified and arity-consistent (negation only on s, p, b, which depend on r, s only)
RULES = [
    rule("d", ["X"], [("pos", "r", ["X"]), ("neg", "s", ["X"])]),
    rule("d", ["X"], [("pos", "r", ["X"])]),
    rule("b", ["X"], [("pos", "r", ["X"]), ("pos", "s", ["X"])]),
    rule("p", ["X"], [("pos", "r", ["X"])]),
    rule("p", ["X"], [("pos", "s", ["X"])]),
    rule("t", ["X", "Y"], [("pos", "e", ["X", "Y"])]),
    rule("t", ["X", "Z"], [("pos", "t", ["X", "Y"]), ("pos", "e", ["Y", "Z"])]),
    rule("u", ["X"], [("pos", "t", ["X", "X"])]),
    rule("n", ["X"], [("pos", "r", ["X"]), ("neg", "p", ["X"])]),
    rule("c", ["X"], [("pos", "e", ["X", "Y"]), ("neg", "b", ["Y"])]),
]
ARITY = {"r": 1, "s": 1, "e": 2, "d": 1, "b": 1, "p": 1, "t": 2, "u": 1, "n": 1, "c": 1}
VARS = ["X", "Y", "Z"]


def rand_fact(rng):
    rel = rng.choice(["r", "r", "s", "s", "e"])
    return rel, [["i", rng.randint(1, 4)] for _ in range(ARITY[rel])]


def gen_random(rng, case):
    """Random scripts, merged in a random order."""
    nsess = rng.randint(2, 3)
    sids = ["A", "B", "C"][:nsess]
    pre = []
    for _ in range(rng.randint(1, 4)):
        rel, tup = rand_fact(rng)
        pre.append({"k": "pins", "rel": rel, "tup": tup})
    for r in rng.sample(RULES, rng.randint(0, 3)):
        pre.append({"k": "prule", "text": r["text"], "ast": r["ast"]})
    pre += [{"k": "open", "sid": x} for x in sids]
    scripts = []
    for x in sids:
        ops = []
        for _ in range(rng.randint(2, 5)):
            c = rng.random()
            if c < 0.35:
                rel, tup = rand_fact(rng)
                ops.append({"k": "sfact", "sid": x, "rel": rel, "tup": tup})
            elif c < 0.45:
                rel, tup = rand_fact(rng)
                ops.append({"k": "sretract", "sid": x, "rel": rel, "tup": tup})
            elif c < 0.65:
                r = rng.choice(RULES)
                ops.append({"k": "srule", "sid": x, "text": r["text"], "ast": r["ast"]})
            else:
                rel = rng.choice(list(ARITY))
                ops.append({"k": "squery", "sid": x, "rel": rel, "ar": ARITY[rel]})
        rel = rng.choice(list(ARITY))
        ops.append({"k": "squery", "sid": x, "rel": rel, "ar": ARITY[rel]})
        scripts.append(ops)
    w = []
    for _ in range(rng.randint(0, 3)):
        c = rng.random()
        rel, tup = rand_fact(rng)
        if c < 0.5:
            w.append({"k": "pins", "rel": rel, "tup": tup})
        elif c < 0.8:
            w.append({"k": "pdel", "rel": rel, "tup": tup})
        else:
            r = rng.choice(RULES)
            w.append({"k": "prule", "text": r["text"], "ast": r["ast"]})
    scripts.append(w)
    loc = []
    for _ in range(rng.randint(0, 2)):
        fs = []
        for _ in range(rng.randint(0, 3)):
            rel, tup = rand_fact(rng)
            fs.append({"rel": rel, "tup": tup})
        rs = rng.sample(RULES, rng.randint(0, 2))
        rel = rng.choice(list(ARITY))
        loc.append({"k": "local", "facts": fs, "rules": [r["ast"] for r in rs], "texts": [r["text"] for r in rs],
                    "rel": rel, "ar": ARITY[rel]})
    scripts.append(loc)
    # random merge
    ops = list(pre)
    idx = [0] * len(scripts)
    while True:
        live = [i for i, s in enumerate(scripts) if idx[i] < len(s)]
        if not live:
            break
        i = rng.choice(live)
        ops.append(scripts[i][idx[i]])
        idx[i] += 1
    return ops


def lit(v):
    return str(v[1])


def exact(v):
    return ["i64", str(v[1])]


def to_step(op):
    k = op["k"]
    base = {"who": None, "c10": op}
    if k == "open":
        return dict(base, k="open", sid=op["sid"], kg=KG)
    if k == "sfact":
        return dict(base, k="req", sid=op["sid"], text=f"{op['rel']}({', '.join(lit(v) for v in op['tup'])})")
    if k == "sretract":
        return dict(base, k="sess_del", sid=op["sid"], rel=op["rel"], tuples=[[exact(v) for v in op["tup"]]])
    if k == "srule":
        return dict(base, k="req", sid=op["sid"], text=op["text"])
    if k == "squery":
        return dict(base, k="req", sid=op["sid"], text=f"?{op['rel']}({', '.join(VARS[:op['ar']])})")
    if k == "pins":
        return dict(base, k="req", kg=KG, text=f"+{op['rel']}({', '.join(lit(v) for v in op['tup'])})")
    if k == "pdel":
        return dict(base, k="req", kg=KG, text=f"-{op['rel']}({', '.join(lit(v) for v in op['tup'])})")
    if k == "prule":
        return dict(base, k="req", kg=KG, text="+" + op["text"])
    if k == "local":
        lines = [f"{f['rel']}({', '.join(lit(v) for v in f['tup'])})" for f in op["facts"]] + list(op["texts"])
        lines.append(f"?{op['rel']}({', '.join(VARS[:op['ar']])})")
        return dict(base, k="req", kg=KG, text="\n".join(lines))
    raise ValueError(k)


def scenario(case, ops, origin):
    return {"case": case, "kind": "c10", "origin": origin, "kgs": [KG], "users": [], "acls": [],
            "steps": [to_step(op) for op in ops]}


def case_preds(sc, step, info):
    """Signature predicates of a rejected step (evaluated on the scenario prefix and the verdict)."""
    P = set()
    ops = [s["c10"] for s in sc["steps"][:step]]
    op = ops[-1]
    P.add("op." + op["k"])
    if isinstance(info, dict):
        P.add("what." + str(info.get("what")))
        if not info.get("acked", True):
            P.add("res.refused")
    pers_heads = {o["ast"]["h"]["r"] for o in ops if o["k"] == "prule"}
    sid = op.get("sid")
    own = [o for o in ops if o.get("sid") == sid and o["k"] == "srule"] if sid else []
    if op["k"] == "local":
        own_asts = op["rules"]
    else:
        own_asts = [o["ast"] for o in own]
    if any(a["h"]["r"] in pers_heads for a in own_asts):
        P.add("view.session_rule_shares_head_with_persistent_rule")
    allr = own_asts + [o["ast"] for o in ops if o["k"] == "prule"]
    if any(l["k"] == "neg" for a in allr for l in a["b"]):
        P.add("view.has_negation")
    if any(l["r"] == a["h"]["r"] for a in allr for l in a["b"]):
        P.add("view.has_recursion")
    heads = {a["h"]["r"] for a in allr}
    facts_rels = {o["rel"] for o in ops if o["k"] in ("sfact", "pins")}
    if heads & facts_rels:
        P.add("view.relation_has_facts_and_rules")
    if op["k"] in ("squery", "local"):
        P.add("query.rel_is_" + ("derived" if op["rel"] in heads else "base"))
    return P


def run(prop, replay=None):
    t = vlib.tier()
    rep = vlib.Report(prop)
    wd = vlib.workdir(prop)
    vlib.build_harness()
    rng = random.Random(vlib.seed() * 104729 + 10)
    scenarios = []
    exhaustive = {}
    if replay:
        with open(replay) as f:
            c = json.load(f)
        scenarios = [c["scenario"]]
    else:
        per_cfg = int(os.environ.get("VERIF_N_MC", {"quick": 120, "thorough": 100000}[t]))
        nrand = int(os.environ.get("VERIF_N", {"quick": 500, "thorough": 8000}[t]))

        def mc(name):
            return name, vlib.tlc_model("MC_Session", cfg_name=name, workers=3, timeout=1800)

        with ThreadPoolExecutor(max_workers=3) as ex:
            results = list(ex.map(mc, ["MC_Session_A", "MC_Session_B", "MC_Session_C"]))
        for name, (res, out, violated) in results:
            if violated:
                vlib.tool_error(f"Session.tla violates its own isolation statements in {name} (specification bug)")
            rep.add_tlc(res)
            hs = [ln["ops"] for ln in res.lines if isinstance(ln, dict) and ln.get("ev") == "hist"]
            if not hs:
                vlib.tool_error(f"{name} emitted no history")
            exhaustive[name] = {"interleavings": len(hs), "all_run": len(hs) <= per_cfg}
            if len(hs) > per_cfg:
                hs = rng.sample(hs, per_cfg)
            for ops in hs:
                scenarios.append(scenario(len(scenarios) + 1, ops, name))
        for _ in range(nrand):
            scenarios.append(scenario(len(scenarios) + 1, gen_random(rng, 0), "random"))
    scen = os.path.join(wd, "scen.ndjson")
    trace = os.path.join(wd, "trace.ndjson")
    with open(scen, "w") as f:
        for s in scenarios:
            f.write(json.dumps(s) + "\n")
    vlib.ilv(["drive-handler", "--scen", scen, "--out", trace, "--root", os.path.join(wd, "data"), "--threads", 14],
             timeout=7200)
    try:
        res = vlib.tlc_trace("SessionTrace", trace, shards=14, timeout=7200, unit_start='"ev":"reset"')
    except vlib.ToolError as e:
        vlib.tool_error(str(e))
    rep.add_tlc(res)
    byc = {s["case"]: s for s in scenarios}
    recs = {}
    with open(trace) as f:
        for line in f:
            r = json.loads(line)
            if r["ev"] == "openfail":
                vlib.tool_error("fresh handler failed to open: " + r["err"])
            if r["ev"] == "step":
                recs[(r["case"], r["step"])] = r
    judged = answers = 0
    nontriv = set()
    refused = 0
    rejected = {}
    for ln in res.lines:
        if not (isinstance(ln, list) and ln[0] == "VERDICT"):
            continue
        _, tag, cid, step, ok, info = ln
        if tag not in (prop, "HANG"):
            continue
        judged += 1
        if isinstance(info, dict):
            if info.get("judged_answer"):
                answers += 1
                if info.get("rows", 1) > 0:
                    nontriv.add((cid, step))
            if not info.get("acked", True):
                refused += 1
        if not ok and cid not in rejected:
            sc = byc[cid]
            preds = {"obs.hang"} if tag == "HANG" else case_preds(sc, step, info)
            r = recs.get((cid, step))
            rejected[cid] = ({"scenario": sc, "failing_step": step,
                              "requests": [s.get("text") or s["k"] for s in sc["steps"][:step]],
                              "result": (r["res"] if r else None)}, info, preds)
    for cid, (case, info, preds) in sorted(rejected.items()):
        rep.reject(case, info, preds)
    if answers == 0:
        vlib.tool_error("no query answer was judged (vacuous run)")
    rep.cov.update({
        "evaluations": judged,
        "scenarios": len(scenarios),
        "query_answers_judged": answers,
        "requests_refused": refused,
        "exhaustive_interleavings": exhaustive,
        "distinct_nontrivial": len(nontriv),
        "rule": "MC_Session scripts A (negation over own facts vs writer), B (session rule sharing a persistent rule's head, "
                "retraction, request-local program), C (recursion, three sessions): every request-level interleaving is "
                "enumerated by TLC (all run in thorough, a seeded sample in quick); plus seeded random scripts of 2-3 sessions "
                "(facts over r/1, s/1, e/2 with values 1..4, 10 rule templates incl. negation and recursion, queries on every "
                "relation), a persistent writer and request-local programs, merged in random order. Non-trivial = a judged "
                "query answer with at least one row; distinct = distinct (scenario, step)",
        "traces_validated_against_impl": len(scenarios),
        "samples": [{"origin": s["origin"], "requests": [x.get("text") or x["k"] for x in s["steps"]]} for s in scenarios[:2]],
    })
    rep.assumptions += ["interleaving granularity = whole requests (the Handler is driven by one client thread); "
                        "thread-level races inside a request are not explored by this check",
                        "sessions are created through Handler::create_session and addressed by execute_program(session id); "
                        "retractions through Handler::session_retract_ephemeral"]
    rep.finish()


if __name__ == "__main__":
    run(sys.argv[1], sys.argv[sys.argv.index("--replay") + 1] if "--replay" in sys.argv else None)

import sys, json
trace, cid = sys.argv[1], int(sys.argv[2])
for l in open(trace):
    r = json.loads(l)
    if r["case"] != cid: continue
    print(r["text"]); print({k: [[x[1] for x in t] for t in v] for k, v in r["edb"].items()})
    seen = {}
    for run in r["runs"]:
        c = run["cfg"]; key = json.dumps(sorted(map(lambda t: [x[1] for x in t], run["res"]["rows"]))) if run["res"]["ok"] else run["res"].get("err", run["res"].get("panic"))
        seen.setdefault(key, []).append(run["tag"] + ":" + "".join(str(c[k]) for k in ("jp","sip","ss","bs","ms")) + f"/w{c['workers']}/l{c['limit']}")
    for k, v in seen.items(): print(k, "<=", " ".join(v))

import sys, json, collections
sys.path.insert(0, '/verif/tools')
import vlib, eng_datalog as E
trace = sys.argv[1]
res = vlib.tlc_trace("EngineTrace", trace, shards=12)
cases = {json.loads(l)["case"]: json.loads(l) for l in open(trace)}
by = collections.defaultdict(list)
tot = collections.Counter()
for ln in res.lines:
    if ln[0] == "VERDICT":
        tot[ln[1]] += 1
        if not ln[3]:
            by[ln[1]].append((ln[2], ln[4]))
for p in sorted(tot):
    print(p, "judged", tot[p], "rejected", len(by[p]))
want = sys.argv[2] if len(sys.argv) > 2 else None
if want:
    for cid, info in by[want][: int(sys.argv[3]) if len(sys.argv) > 3 else 10]:
        c = cases[cid]
        print("---", cid, info)
        print(c["text"])
        print({k: [[x[1] for x in t] for t in v] for k, v in c["edb"].items()})
        print("default:", c["runs"][0]["res"].get("err", [[x[1] for x in t] for t in c["runs"][0]["res"]["rows"]]))
        print(sorted(E.preds_of(c)))

"""Engine `handler-trace`: C27, C29, C30 (authorization and program atomicity
through the real protocol Handler), judged by spec/HandlerTrace.tla against
spec/Auth.tla and spec/Store.tla.

impl -> spec: seeded scenarios (users, ACLs, graphs with marker facts, then a
generated multi-line program submitted by a non-admin identity); after every
request the harness records the whole system state.
"""
import json
import os
import random
import sys

import vlib

N = {"quick": {"C27": 1200, "C29": 1000, "C30": 1000, "C32": 800, "C33": 1000, "C34": 1000, "C35": 1200},
     "thorough": {"C27": 20000, "C29": 15000, "C30": 15000, "C32": 12000, "C33": 15000, "C34": 15000, "C35": 20000}}
GEN = {}


def i64(n):
    return ["i64", str(n)]


MARK = {"g1": [i64(1001), i64(1002)], "g2": [i64(2001), i64(2002)], "default": [i64(9001)]}


def setup_steps():
    st = []
    for g, base in (("g1", 1001), ("g2", 2001), ("default", 9001)):
        n = 1 if g == "default" else 2
        tuples = ", ".join(f"({base + k})" for k in range(n))
        st.append({"k": "req", "who": None, "kg": g, "text": f"+m[{tuples}]"})
        st.append({"k": "req", "who": None, "kg": g, "text": "+v(X) <- m(X)"})
    return st


# statement templates: (text, kind)
def stmt_pool(rng, internal_bias):
    k = rng.randint(1, 9)
    pool = [
        "?m(X)", "?v(X)", f"+m({k})", f"+m[({k}), ({k + 1})]", "-m(1001)", "-m(2001)", f"-m({k})",
        "-m(X) <- m(X), X > 0", f"+w{k}(X) <- m(X)", "w(X) <- m(X)", f"+s{k}(a: int)", ".rel", ".rule", ".kg", ".kg list",
        ".kg use g1", ".kg use g2", ".kg use default", f".kg create n{k}", ".kg create g1", ".kg create g2", ".kg drop g2", ".kg drop g1", ".rule drop v", ".rule clear v",
        ".rule remove v 1", ".compact", "// just a comment", "-v", "-m", ".session clear", ".status",
        f"-m(X), +m({k}) <- m(X), X > 1000", ".kg acl grant g2 eve owner", ".kg acl list g2", ".user list",
        ".apikey list", ".user create mallory pw admin", ".user role eve admin", ".kg acl revoke g1 eve",
    ]
    internal = [
        ".kg use _internal", "?users(A, B, C)", '+users("mallory", "h", "admin")', '-users("eve", "SECRETHASH_eve", "viewer")',
        ".kg drop _internal", ".kg create _internal", "?kg_acls(A, B, C)", '+kg_acls("g2", "eve", "owner")',
        'x(A) <- users(A, B, C)', '+leak(A, B) <- users(A, B, C)', "-users", ".rel users",
    ]
    if rng.random() < internal_bias:
        return rng.choice(internal)
    return rng.choice(pool)


def gen_auth_scenario(rng, case, prop):
    glob = rng.choice(["viewer", "editor", "editor"])
    roles = ["none", "viewer", "editor", "owner"]
    acl1, acl2 = rng.choice(roles), rng.choice(roles)
    acls = []
    if acl1 != "none":
        acls.append({"kg": "g1", "user": "eve", "role": acl1})
    if acl2 != "none":
        acls.append({"kg": "g2", "user": "eve", "role": acl2})
    if rng.random() < 0.5:
        acls.append({"kg": "default", "user": "eve", "role": rng.choice(roles[1:])})
    steps = setup_steps()
    markers = dict(MARK)
    markers["_internal"] = [["s", "SECRETHASH_eve"], ["s", "SECRETHASH_root"]]
    bias = 0.45 if prop == "C29" else 0.12
    use_session = rng.random() < 0.35
    start_kg = rng.choice(["g1", "g2", "default"] + (["_internal"] if prop == "C29" and rng.random() < 0.3 else []))
    if use_session:
        steps.append({"k": "open", "sid": "s1", "kg": start_kg, "who": "eve", "judge": [], "markers": markers})
    for _ in range(rng.randint(1, 3)):
        nl = rng.choice([1, 1, 2, 2, 3, 4, 5])
        lines = [stmt_pool(rng, bias) for _ in range(nl)]
        if rng.random() < 0.15:
            # an indented continuation line / trailing comment
            lines.insert(rng.randint(0, len(lines)), "   // note")
        text = "\n".join(lines)
        # a session-bound request may also name a graph explicitly (another one than the session's)
        explicit = rng.choice(["g1", "g2", "default", "_internal"]) if use_session and rng.random() < 0.25 else None
        steps.append({"k": "req", "who": "eve", "kg": explicit if use_session else start_kg,
                      "sid": "s1" if use_session else None, "text": text, "judge": ["C27", "C29"], "markers": markers})
    for s in steps:
        s.setdefault("judge", [])
        s.setdefault("markers", markers)
    return {"case": case, "kind": "auth", "kgs": ["g1", "g2"],
            "users": [{"name": "eve", "global": glob}, {"name": "root", "global": "admin"}], "acls": acls, "steps": steps}


# ---- C30: programs of known statements, optionally with an injected syntax error

def gen_c30_scenario(rng, case):
    steps = [{"k": "req", "who": None, "kg": "default", "text": "+m[(1), (2)]", "judge": [], "markers": {}}]
    for _ in range(rng.randint(1, 3)):
        n = rng.randint(1, 5)
        lines, ops = [], []
        for _ in range(n):
            rel = rng.choice(["m", "n"])
            ar = 1 if rel == "m" else 2
            mk = lambda: tuple(rng.randint(1, 4) for _ in range(ar))
            x = rng.random()
            if x < 0.45:
                t = mk()
                lines.append(f"+{rel}({', '.join(map(str, t))})")
                ops.append({"k": "ins", "kg": "default", "rel": rel, "tuples": [[i64(v) for v in t]]})
            elif x < 0.65:
                ts = [mk() for _ in range(rng.randint(2, 3))]
                lines.append(f"+{rel}[" + ", ".join("(" + ", ".join(map(str, t)) + ")" for t in ts) + "]")
                ops.append({"k": "ins", "kg": "default", "rel": rel, "tuples": [[i64(v) for v in t] for t in ts]})
            elif x < 0.9:
                t = mk()
                lines.append(f"-{rel}({', '.join(map(str, t))})")
                ops.append({"k": "del", "kg": "default", "rel": rel, "tuples": [[i64(v) for v in t]]})
            else:
                lines.append("// comment")
        # a query somewhere in the program (it has no effect on the stored state; statements after it
        # still run, and a syntax error after it must still refuse the whole program)
        if rng.random() < 0.4:
            lines.insert(rng.randint(0, len(lines)), rng.choice(["?m(X)", "?n(X, Y)"]))
        bad = rng.random() < 0.5
        if bad:
            broken = rng.choice(["+m(", "+m(1,, 2)", "-n(1 2", "+m[(1), (2", "?m(X", "p(X) <- ", "+q(X) <- m(X), ", "+m(1))", "m(X) <-- n(X)",
                                 "+n(1, )", "+(1)", "+m[1, 2)]"])
            lines.insert(rng.randint(0, len(lines)), broken)
        steps.append({"k": "req", "who": None, "kg": "default", "text": "\n".join(lines), "judge": ["C30"],
                      "bad": bad, "ops": ops, "markers": {}})
    return {"case": case, "kind": "c30", "kgs": [], "users": [], "acls": [], "steps": steps}


# ---- C32: write statements with the abstract operation the set model applies

def gen_c32_scenario(rng, case):
    steps = []
    for _ in range(rng.randint(2, 5)):
        lines, ops = [], []
        for _ in range(rng.randint(1, 4)):
            rel = rng.choice(["m", "n"])
            ar = 1 if rel == "m" else 2
            mk = lambda: tuple(rng.randint(1, 4) for _ in range(ar))
            txt = lambda t: "(" + ", ".join(map(str, t)) + ")"
            enc = lambda t: [i64(v) for v in t]
            x = rng.random()
            if x < 0.2:
                t = mk()
                lines.append(f"+{rel}{txt(t)}")
                ops.append({"k": "ins", "kg": "default", "rel": rel, "tuples": [enc(t)]})
            elif x < 0.45:
                ts = [mk() for _ in range(rng.randint(2, 5))]
                lines.append(f"+{rel}[" + ", ".join(map(txt, ts)) + "]")
                ops.append({"k": "ins", "kg": "default", "rel": rel, "tuples": [enc(t) for t in ts]})
            elif x < 0.6:
                t = mk()
                lines.append(f"-{rel}{txt(t)}")
                ops.append({"k": "del", "kg": "default", "rel": rel, "tuples": [enc(t)]})
            elif x < 0.7:
                ts = [mk() for _ in range(rng.randint(2, 4))]
                lines.append(f"-{rel}[" + ", ".join(map(txt, ts)) + "]")
                ops.append({"k": "del", "kg": "default", "rel": rel, "tuples": [enc(t) for t in ts]})
            elif x < 0.87:
                col = rng.randint(1, ar)
                op = rng.choice(["=", "!="])
                c = rng.randint(1, 4)
                vs = ["X", "Y"][:ar]
                lines.append(f"-{rel}({', '.join(vs)}) <- {rel}({', '.join(vs)}), {vs[col - 1]} {op} {c}")
                ops.append({"k": "cdel", "kg": "default", "rel": rel, "col": col, "op": op, "val": i64(c)})
            else:
                # update on the binary relation: set one column to a constant where the other matches
                col = rng.randint(1, 2)
                setcol = 3 - col if rng.random() < 0.7 else col
                op = rng.choice(["=", "!="])
                c, d = rng.randint(1, 4), rng.randint(1, 4)
                vs = ["X", "Y"]
                new = list(vs)
                new[setcol - 1] = str(d)
                lines.append(f"-n(X, Y), +n({', '.join(new)}) <- n(X, Y), {vs[col - 1]} {op} {c}")
                ops.append({"k": "upd", "kg": "default", "rel": "n", "col": col, "op": op, "val": i64(c),
                            "setcol": setcol, "setval": i64(d)})
        steps.append({"k": "req", "who": None, "kg": "default", "text": "\n".join(lines), "judge": ["C32"],
                      "bad": False, "ops": ops, "markers": {}})
    return {"case": case, "kind": "c32", "kgs": [], "users": [], "acls": [], "steps": steps}


# ---- C33: declared schemas

def txt_val(v):
    k, p = v
    if k == "i64":
        return p
    if k == "s":
        return '"%s"' % p
    if k == "f":
        return p
    if k == "v":
        return "[" + ", ".join(p) + "]"
    return p  # bool


def exact_val(v):
    """tagged value as the harness observes it (Exact encoding)"""
    import struct
    k, p = v
    if k == "f":
        return ["f", "bits:%016x" % struct.unpack(">Q", struct.pack(">d", float(p)))[0]]
    if k == "v":
        return ["v", ["bits:%08x" % struct.unpack(">I", struct.pack(">f", float(x)))[0] for x in p]]
    return [k, p]


def rand_val(rng, kind):
    if kind == "i64":
        return ("i64", str(rng.randint(0, 5)))
    if kind == "s":
        return ("s", rng.choice(["a", "b", "xy"]))
    if kind == "f":
        return ("f", rng.choice(["1.5", "2.25", "0.5"]))
    if kind in ("v2", "v3"):
        return ("v", [rng.choice(["1.0", "0.5", "2.0"]) for _ in range(int(kind[1]))])
    return ("b", rng.choice(["true", "false"]))


def gen_c33_scenario(rng, case):
    tys = ["int", "string", "float", "bool", "int", "string", "vector:2", "vector:3"]
    kind_of = {"int": "i64", "string": "s", "float": "f", "bool": "b", "vector:2": "v2", "vector:3": "v3"}
    ar = rng.randint(1, 3)
    types = [rng.choice(tys) for _ in range(ar)]
    cols = ", ".join(f"c{i}: {t.replace(':', '(') + (')' if ':' in t else '')}" for i, t in enumerate(types))
    steps = []
    data_first = rng.random() < 0.15
    if data_first:
        # data before the schema: stored tuples may not conform to the schema declared later
        t = [rand_val(rng, rng.choice(list(kind_of.values()))) for _ in range(ar)]
        steps.append({"k": "req", "who": None, "kg": "default", "text": "+t(" + ", ".join(map(txt_val, t)) + ")",
                      "judge": [], "markers": {}})
    steps.append({"k": "req", "who": None, "kg": "default", "text": f"+t({cols})", "judge": [], "markers": {}})
    for _ in range(rng.randint(2, 5)):
        n = rng.randint(1, 3)
        batch = []
        for _ in range(n):
            mode = rng.random()
            a = ar if mode < 0.85 else max(1, ar + rng.choice([-1, 1]))
            tup = []
            for i in range(a):
                want = kind_of[types[i]] if i < ar else "i64"
                k = want if rng.random() < 0.8 else rng.choice(list(kind_of.values()))
                tup.append(rand_val(rng, k))
            batch.append(tup)
        if n == 1:
            text = "+t(" + ", ".join(map(txt_val, batch[0])) + ")"
        else:
            text = "+t[" + ", ".join("(" + ", ".join(map(txt_val, t)) + ")" for t in batch) + "]"
        via = rng.random()
        step = {"k": "req", "who": None, "kg": "default", "text": text, "judge": ["C33"], "rel": "t", "types": types,
                "ops": [{"k": "ins", "kg": "default", "rel": "t", "tuples": [[exact_val(v) for v in t] for t in batch]}],
                "markers": {}, "data_first": data_first}
        if via < 0.25:
            # the same batch through an update's insert side is not generated here (C32 covers updates)
            step["text"] = "// batch\n" + text
        steps.append(step)
    return {"case": case, "kind": "c33", "kgs": [], "users": [], "acls": [], "steps": steps}


# ---- C34: rule sets with / without recursion through negation

def ast_atom(kind, rel, var="X"):
    return {"k": kind, "r": rel, "a": [{"t": "v", "n": var}]}


def gen_c34_scenario(rng, case):
    preds = ["a", "b", "c", "d"][: rng.randint(2, 4)]
    rules = []
    for p in preds:
        for _ in range(rng.randint(1, 2)):
            body = [("pos", "z")]
            for _ in range(rng.randint(0, 2)):
                body.append((rng.choice(["pos", "pos", "neg"]), rng.choice(preds)))
            # a rule must not be `p <- ..., p` only trivially; keep as generated
            text = f"{p}(X) <- " + ", ".join(("!" if k == "neg" else "") + f"{r}(X)" for k, r in body)
            ast = {"h": {"r": p, "a": [{"t": "v", "n": "X"}]}, "b": [ast_atom(k, r) for k, r in body]}
            rules.append((p, text, ast))
    rng.shuffle(rules)
    split = rng.randint(0, len(rules))
    pers, sess = rules[:split], rules[split:]
    steps = [{"k": "req", "who": None, "kg": "default", "text": "+z[(1), (2)]", "judge": [], "markers": {}}]
    for p, text, ast in pers:
        steps.append({"k": "req", "who": None, "kg": "default", "text": "+" + text, "judge": [], "markers": {}})
    q = rng.choice(preds)
    prog = "\n".join(t for _, t, _ in sess) + ("\n" if sess else "") + f"?{q}(X)"
    steps.append({"k": "req", "who": None, "kg": "default", "text": prog, "judge": ["C34"], "markers": {},
                  "pers": [{"text": "".join(t.split()), "ast": a} for _, t, a in pers],
                  "sess": [a for _, _, a in sess]})
    return {"case": case, "kind": "c34", "kgs": [], "users": [], "acls": [], "steps": steps}


# ---- C35: sort annotations, limit, offset over mixed value kinds

def gen_c35_scenario(rng, case):
    ar = rng.randint(2, 3)
    strs = ["a", "ab", "b", "c"]
    srank = {s: i + 1 for i, s in enumerate(sorted(strs))}
    def v():
        x = rng.random()
        if x < 0.3:
            return ["i64", str(rng.randint(0, 4))]
        if x < 0.45:
            return ["i32", str(rng.randint(0, 4))]
        if x < 0.65:
            import struct
            f = rng.choice([0.5, 1.5, 2.0, 3.25, float("nan"), float("inf"), -0.0, 2.5])
            return ["f", "bits:%016x" % struct.unpack(">Q", struct.pack(">d", f))[0]]
        if x < 0.9:
            return ["s", rng.choice(strs)]
        return ["n"]
    homog = rng.random() < 0.5
    colkind = [rng.choice(["i", "f", "s"]) for _ in range(ar)]
    def hv(k):
        if k == "i":
            return ["i64", str(rng.randint(0, 5))]
        if k == "s":
            return ["s", rng.choice(strs)]
        import struct
        return ["f", "bits:%016x" % struct.unpack(">Q", struct.pack(">d", rng.choice([0.5, 1.5, 2.0, 3.25, 2.5])))[0]]
    tuples = [[(hv(colkind[c]) if homog else v()) for c in range(ar)] for _ in range(rng.randint(2, 6))]
    steps = [{"k": "raw_ins", "kg": "default", "rel": "r", "tuples": tuples, "judge": [], "markers": {}}]
    vs = ["A", "B", "C"][:ar]
    for _ in range(rng.randint(1, 3)):
        keys, args = [], []
        for i, name in enumerate(vs):
            d = rng.choice(["", "", "asc", "desc"])
            args.append(name + (":" + d if d else ""))
            if d:
                keys.append({"col": i + 1, "dir": d})
        limit, offset = -1, 0
        lim = ""
        x = rng.random()
        if x < 0.4:
            limit = rng.randint(0, len(tuples) + 1)
            lim = f", limit({limit})"
        elif x < 0.75:
            limit = rng.randint(0, len(tuples) + 1)
            offset = rng.randint(0, len(tuples) + 1)
            lim = f", limit({limit}, {offset})"
        text = f"?r({', '.join(args)}){lim}"
        steps.append({"k": "req", "who": None, "kg": "default", "text": text, "ref_text": f"?r({', '.join(vs)})",
                      "judge": ["C35"], "keys": keys, "limit": limit, "offset": offset, "srank": srank, "markers": {}})
    return {"case": case, "kind": "c35", "kgs": [], "users": [], "acls": [], "steps": steps}


def run_c28():
    rep = vlib.Report("C28")
    wd = vlib.workdir("C28")
    vlib.build_harness()
    trace = os.path.join(wd, "matrix.ndjson")
    vlib.ilv(["dump-matrix", "--out", trace])
    with open(trace) as f:
        m = json.loads(f.readline())
    try:
        res = vlib.tlc_trace("MatrixTrace", trace, shards=1, timeout=600)
    except vlib.ToolError as e:
        vlib.tool_error(str(e))
    rep.add_tlc(res)
    info = [ln for ln in res.lines if ln[0] == "INFO"][0]
    _, ntexts, nkinds, unknown, missing, unparsed = info
    if missing or unparsed or unknown:
        vlib.tool_error(f"matrix incomplete: kinds without sample {missing}, samples that no longer parse {unparsed}, "
                        f"kinds the specification does not classify {unknown}")
    laws = 0
    for ln in res.lines:
        if ln[0] == "VERDICT":
            laws += 1
            if not ln[3]:
                bad = ln[4]
                cells = [c for c in m["cells"] if any(c["text"] == (b[1] if isinstance(b, list) else b) for b in bad)]
                rep.reject({"law": ln[2], "offending": bad, "cells": cells}, {"law": ln[2], "offending": bad},
                           {"law." + ln[2]} | {"kind." + c["kind"] for c in cells})
    if laws != 3:
        vlib.tool_error("MatrixTrace did not evaluate its three laws")
    rep.cov.update({
        "evaluations": len(m["cells"]),
        "distinct_nontrivial": ntexts,
        "exhaustive": True,
        "kinds": nkinds,
        "rule": "every Statement / MetaCommand variant (exhaustive match in harness/src/matrix.rs: a new variant is a build "
                "error) with 1-3 sample texts each x 3 global roles x 3 graph roles, decided by the real authorize_statement / "
                "authorize_kg_operation; distinct = sample texts; all are non-trivial (each is a cell of the matrix)",
        "traces_validated_against_impl": 1,
        "samples": m["cells"][:6],
    })
    rep.assumptions += ["classification of statement kinds into data-mutating / system-mutating / read-only / admin-only is the "
                        "specification's (spec/MatrixTrace.tla), written from the property statement"]
    rep.finish()


def run(prop, replay=None):
    if prop == "C28":
        return run_c28()
    t = vlib.tier()
    rep = vlib.Report(prop)
    wd = vlib.workdir(prop)
    vlib.build_harness()
    scen = os.path.join(wd, "scen.ndjson")
    trace = os.path.join(wd, "trace.ndjson")
    rng = random.Random(vlib.seed() * 7919 + hash(prop) % 1000)
    scenarios = []
    if replay:
        with open(replay) as f:
            c = json.load(f)
        scenarios = [c["scenario"]]
    else:
        n = int(os.environ.get("VERIF_N", N[t][prop]))
        rng = random.Random(vlib.seed() * 7919 + int(prop[1:]))
        for i in range(1, n + 1):
            gens = {"C30": gen_c30_scenario, "C32": gen_c32_scenario, "C33": gen_c33_scenario, "C34": gen_c34_scenario,
                    "C35": gen_c35_scenario}
            scenarios.append(gens[prop](rng, i) if prop in gens else gen_auth_scenario(rng, i, prop))
    with open(scen, "w") as f:
        for s in scenarios:
            f.write(json.dumps(s) + "\n")
    vlib.ilv(["drive-handler", "--scen", scen, "--out", trace, "--root", os.path.join(wd, "data"), "--threads", 14],
             timeout=7200)
    try:
        res = vlib.tlc_trace("HandlerTrace", trace, shards=12, timeout=7200, unit_start='"ev":"reset"')
    except vlib.ToolError as e:
        vlib.tool_error(str(e))
    rep.add_tlc(res)
    byc = {s["case"]: s for s in scenarios}
    recs = {}
    with open(trace) as f:
        for line in f:
            r = json.loads(line)
            if r["ev"] == "openfail":
                vlib.tool_error("fresh handler failed to open: " + r["err"])
            if r["ev"] == "step":
                recs[(r["case"], r["step"])] = r
    judged = 0
    nontriv = set()
    rejected = {}
    for ln in res.lines:
        if not (isinstance(ln, list) and ln[0] == "VERDICT"):
            continue
        _, tag, cid, step, ok, info = ln
        if tag not in (prop, "HANG"):
            continue
        judged += 1
        r = recs.get((cid, step))
        if r is not None:
            text = r["req"].get("text", "")
            if prop not in ("C27", "C29") or "\n" in text or len(text) > 8:
                nontriv.add((cid, step))
        if not ok and cid not in rejected:
            preds = set()
            if r is not None:
                text = r["req"].get("text", "")
                if text.count("\n") >= 1:
                    preds.add("auth.multiline_program")
                if "_internal" in text or "users" in text or "kg_acls" in text:
                    preds.add("prog.names_internal")
                if r["req"].get("sid"):
                    preds.add("req.session_bound")
                preds.add("who." + r["who"]["g"])
                if r["req"].get("bad"):
                    preds.add("prog.syntax_error")
                if r["req"].get("data_first"):
                    preds.add("hist.data_before_schema")
                if prop == "C34":
                    preds.add("rules.session" if r["req"].get("sess") else "rules.no_session")
                    preds.add("rules.persistent" if r["req"].get("pers") else "rules.no_persistent")
                    if isinstance(info, dict):
                        preds.add("set.unstratified" if not info.get("stratall") else "set.stratified")
                        if info.get("accepted") != info.get("submitted"):
                            preds.add("registration.refused")
                if prop == "C35":
                    kinds = {v[0] for t in byc[cid]["steps"][0].get("tuples", []) for v in t}
                    if len(kinds) > 1:
                        preds.add("sort.mixed_kinds")
                    if any(v[0] == "f" and v[1] in ("bits:7ff8000000000000",) for t in byc[cid]["steps"][0].get("tuples", []) for v in t):
                        preds.add("sort.has_nan")
                    if "n" in kinds:
                        preds.add("sort.has_null")
            if tag == "HANG":
                preds.add("obs.hang")
            rejected[cid] = ({"scenario": byc[cid], "failing_step": step,
                              "request": r["req"] if r else None, "who": r["who"] if r else None,
                              "result": (r["res"] if r else None)}, info, preds)
    for cid, (case, info, preds) in sorted(rejected.items()):
        rep.reject(case, info, preds)
    if judged == 0:
        vlib.tool_error("no step of this property was judged (vacuous run)")
    sample = [{"users": s["users"], "acls": s["acls"], "requests": [x.get("text") for x in s["steps"] if x.get("judge")]}
              for s in scenarios[:3]]
    rep.cov.update({
        "evaluations": judged,
        "scenarios": len(scenarios),
        "distinct_nontrivial": len(nontriv),
        "rule": ("seeded scenarios: graphs g1,g2,default with marker facts/rules, identity eve (global viewer|editor, "
                 "graph role none|viewer|editor|owner per graph), 1-3 requests of 1-5 statements drawn from ~50 statement "
                 "templates (queries, inserts, deletes, conditional deletes, updates, rules, schemas, meta commands, "
                 ".kg use/create/drop, comments, _internal in every position), bound by target graph or by session; "
                 "a judged request is non-trivial if it has several statements or a non-trivial statement"
                 if prop != "C30" else
                 "seeded programs of 1-5 insert/bulk-insert/delete statements over 2 relations with a syntax error "
                 "(12 kinds) injected at a random position in half of them; every judged request counts as non-trivial"),
        "traces_validated_against_impl": len(scenarios),
        "samples": sample,
    })
    rep.assumptions += ["users and ACLs are installed by direct inserts into _internal (no password hashing in the loop)",
                        "state observed from the published snapshot of every graph (what queries are served from)"]
    rep.finish()


if __name__ == "__main__":
    run(sys.argv[1], sys.argv[sys.argv.index("--replay") + 1] if "--replay" in sys.argv else None)

"""Engine `handler-trace`: C27, C29, C30 (authorization and program atomicity
through the real protocol Handler), judged by spec/HandlerTrace.tla against
spec/Auth.tla and spec/Store.tla.

impl -> spec: seeded scenarios (users, ACLs, graphs with marker facts, then a
generated multi-line program submitted by a non-admin identity); after every
request the harness records the whole system state.
"""
import json
import os
import random
import sys

import vlib

N = {"quick": {"C27": 1500, "C29": 1200, "C30": 1200}, "thorough": {"C27": 20000, "C29": 15000, "C30": 15000}}


def i64(n):
    return ["i64", str(n)]


MARK = {"g1": [i64(1001), i64(1002)], "g2": [i64(2001), i64(2002)], "default": [i64(9001)]}


def setup_steps():
    st = []
    for g, base in (("g1", 1001), ("g2", 2001), ("default", 9001)):
        n = 1 if g == "default" else 2
        tuples = ", ".join(f"({base + k})" for k in range(n))
        st.append({"k": "req", "who": None, "kg": g, "text": f"+m[{tuples}]"})
        st.append({"k": "req", "who": None, "kg": g, "text": "+v(X) <- m(X)"})
    return st


# statement templates: (text, kind)
def stmt_pool(rng, internal_bias):
    k = rng.randint(1, 9)
    pool = [
        "?m(X)", "?v(X)", f"+m({k})", f"+m[({k}), ({k + 1})]", "-m(1001)", "-m(2001)", f"-m({k})",
        "-m(X) <- m(X), X > 0", f"+w{k}(X) <- m(X)", "w(X) <- m(X)", f"+s{k}(a: int)", ".rel", ".rule", ".kg", ".kg list",
        ".kg use g1", ".kg use g2", ".kg use default", f".kg create n{k}", ".kg drop g2", ".kg drop g1", ".rule drop v", ".rule clear v",
        ".rule remove v 1", ".compact", "// just a comment", "-v", "-m", ".session clear", ".status",
        f"-m(X), +m({k}) <- m(X), X > 1000", ".kg acl grant g2 eve owner", ".kg acl list g2", ".user list",
        ".apikey list", ".user create mallory pw admin", ".user role eve admin", ".kg acl revoke g1 eve",
    ]
    internal = [
        ".kg use _internal", "?users(A, B, C)", '+users("mallory", "h", "admin")', '-users("eve", "SECRETHASH_eve", "viewer")',
        ".kg drop _internal", ".kg create _internal", "?kg_acls(A, B, C)", '+kg_acls("g2", "eve", "owner")',
        'x(A) <- users(A, B, C)', '+leak(A, B) <- users(A, B, C)', "-users", ".rel users",
    ]
    if rng.random() < internal_bias:
        return rng.choice(internal)
    return rng.choice(pool)


def gen_auth_scenario(rng, case, prop):
    glob = rng.choice(["viewer", "editor", "editor"])
    roles = ["none", "viewer", "editor", "owner"]
    acl1, acl2 = rng.choice(roles), rng.choice(roles)
    acls = []
    if acl1 != "none":
        acls.append({"kg": "g1", "user": "eve", "role": acl1})
    if acl2 != "none":
        acls.append({"kg": "g2", "user": "eve", "role": acl2})
    if rng.random() < 0.5:
        acls.append({"kg": "default", "user": "eve", "role": rng.choice(roles[1:])})
    steps = setup_steps()
    markers = dict(MARK)
    markers["_internal"] = [["s", "SECRETHASH_eve"], ["s", "SECRETHASH_root"]]
    bias = 0.45 if prop == "C29" else 0.12
    use_session = rng.random() < 0.35
    start_kg = rng.choice(["g1", "g2", "default"] + (["_internal"] if prop == "C29" and rng.random() < 0.3 else []))
    if use_session:
        steps.append({"k": "open", "sid": "s1", "kg": start_kg, "who": "eve", "judge": [], "markers": markers})
    for _ in range(rng.randint(1, 3)):
        nl = rng.choice([1, 1, 2, 2, 3, 4, 5])
        lines = [stmt_pool(rng, bias) for _ in range(nl)]
        if rng.random() < 0.15:
            # an indented continuation line / trailing comment
            lines.insert(rng.randint(0, len(lines)), "   // note")
        text = "\n".join(lines)
        steps.append({"k": "req", "who": "eve", "kg": None if use_session else start_kg,
                      "sid": "s1" if use_session else None, "text": text, "judge": ["C27", "C29"], "markers": markers})
    for s in steps:
        s.setdefault("judge", [])
        s.setdefault("markers", markers)
    return {"case": case, "kind": "auth", "kgs": ["g1", "g2"],
            "users": [{"name": "eve", "global": glob}, {"name": "root", "global": "admin"}], "acls": acls, "steps": steps}


# ---- C30: programs of known statements, optionally with an injected syntax error

def gen_c30_scenario(rng, case):
    steps = [{"k": "req", "who": None, "kg": "default", "text": "+m[(1), (2)]", "judge": [], "markers": {}}]
    for _ in range(rng.randint(1, 3)):
        n = rng.randint(1, 5)
        lines, ops = [], []
        for _ in range(n):
            rel = rng.choice(["m", "n"])
            ar = 1 if rel == "m" else 2
            mk = lambda: tuple(rng.randint(1, 4) for _ in range(ar))
            x = rng.random()
            if x < 0.45:
                t = mk()
                lines.append(f"+{rel}({', '.join(map(str, t))})")
                ops.append({"k": "ins", "kg": "default", "rel": rel, "tuples": [[i64(v) for v in t]]})
            elif x < 0.65:
                ts = [mk() for _ in range(rng.randint(2, 3))]
                lines.append(f"+{rel}[" + ", ".join("(" + ", ".join(map(str, t)) + ")" for t in ts) + "]")
                ops.append({"k": "ins", "kg": "default", "rel": rel, "tuples": [[i64(v) for v in t] for t in ts]})
            elif x < 0.9:
                t = mk()
                lines.append(f"-{rel}({', '.join(map(str, t))})")
                ops.append({"k": "del", "kg": "default", "rel": rel, "tuples": [[i64(v) for v in t]]})
            else:
                lines.append("// comment")
        bad = rng.random() < 0.5
        if bad:
            broken = rng.choice(["+m(", "+m(1,, 2)", "-n(1 2", "+m[(1), (2", "?m(X", "p(X) <- ", "+q(X) <- m(X), ", "+m(1))", "m(X) <-- n(X)",
                                 "+n(1, )", "+(1)", "+m[1, 2)]"])
            lines.insert(rng.randint(0, len(lines)), broken)
        steps.append({"k": "req", "who": None, "kg": "default", "text": "\n".join(lines), "judge": ["C30"],
                      "bad": bad, "ops": ops, "markers": {}})
    return {"case": case, "kind": "c30", "kgs": [], "users": [], "acls": [], "steps": steps}


def run_c28():
    rep = vlib.Report("C28")
    wd = vlib.workdir("C28")
    vlib.build_harness()
    trace = os.path.join(wd, "matrix.ndjson")
    vlib.ilv(["dump-matrix", "--out", trace])
    with open(trace) as f:
        m = json.loads(f.readline())
    try:
        res = vlib.tlc_trace("MatrixTrace", trace, shards=1, timeout=600)
    except vlib.ToolError as e:
        vlib.tool_error(str(e))
    rep.add_tlc(res)
    info = [ln for ln in res.lines if ln[0] == "INFO"][0]
    _, ntexts, nkinds, unknown, missing, unparsed = info
    if missing or unparsed or unknown:
        vlib.tool_error(f"matrix incomplete: kinds without sample {missing}, samples that no longer parse {unparsed}, "
                        f"kinds the specification does not classify {unknown}")
    laws = 0
    for ln in res.lines:
        if ln[0] == "VERDICT":
            laws += 1
            if not ln[3]:
                bad = ln[4]
                cells = [c for c in m["cells"] if any(c["text"] == (b[1] if isinstance(b, list) else b) for b in bad)]
                rep.reject({"law": ln[2], "offending": bad, "cells": cells}, {"law": ln[2], "offending": bad},
                           {"law." + ln[2]} | {"kind." + c["kind"] for c in cells})
    if laws != 3:
        vlib.tool_error("MatrixTrace did not evaluate its three laws")
    rep.cov.update({
        "evaluations": len(m["cells"]),
        "distinct_nontrivial": ntexts,
        "exhaustive": True,
        "kinds": nkinds,
        "rule": "every Statement / MetaCommand variant (exhaustive match in harness/src/matrix.rs: a new variant is a build "
                "error) with 1-3 sample texts each x 3 global roles x 3 graph roles, decided by the real authorize_statement / "
                "authorize_kg_operation; distinct = sample texts; all are non-trivial (each is a cell of the matrix)",
        "traces_validated_against_impl": 1,
        "samples": m["cells"][:6],
    })
    rep.assumptions += ["classification of statement kinds into data-mutating / system-mutating / read-only / admin-only is the "
                        "specification's (spec/MatrixTrace.tla), written from the property statement"]
    rep.finish()


def run(prop, replay=None):
    if prop == "C28":
        return run_c28()
    t = vlib.tier()
    rep = vlib.Report(prop)
    wd = vlib.workdir(prop)
    vlib.build_harness()
    scen = os.path.join(wd, "scen.ndjson")
    trace = os.path.join(wd, "trace.ndjson")
    rng = random.Random(vlib.seed() * 7919 + hash(prop) % 1000)
    scenarios = []
    if replay:
        with open(replay) as f:
            c = json.load(f)
        scenarios = [c["scenario"]]
    else:
        n = int(os.environ.get("VERIF_N", N[t][prop]))
        rng = random.Random(vlib.seed() * 7919 + int(prop[1:]))
        for i in range(1, n + 1):
            scenarios.append(gen_c30_scenario(rng, i) if prop == "C30" else gen_auth_scenario(rng, i, prop))
    with open(scen, "w") as f:
        for s in scenarios:
            f.write(json.dumps(s) + "\n")
    vlib.ilv(["drive-handler", "--scen", scen, "--out", trace, "--root", os.path.join(wd, "data"), "--threads", 14],
             timeout=7200)
    try:
        res = vlib.tlc_trace("HandlerTrace", trace, shards=12, timeout=7200, unit_start='"ev":"reset"')
    except vlib.ToolError as e:
        vlib.tool_error(str(e))
    rep.add_tlc(res)
    byc = {s["case"]: s for s in scenarios}
    recs = {}
    with open(trace) as f:
        for line in f:
            r = json.loads(line)
            if r["ev"] == "openfail":
                vlib.tool_error("fresh handler failed to open: " + r["err"])
            if r["ev"] == "step":
                recs[(r["case"], r["step"])] = r
    judged = 0
    nontriv = set()
    rejected = {}
    for ln in res.lines:
        if not (isinstance(ln, list) and ln[0] == "VERDICT"):
            continue
        _, tag, cid, step, ok, info = ln
        if tag not in (prop, "HANG"):
            continue
        judged += 1
        r = recs.get((cid, step))
        if r is not None:
            text = r["req"].get("text", "")
            if prop == "C30" or "\n" in text or len(text) > 8:
                nontriv.add((cid, step))
        if not ok and cid not in rejected:
            preds = set()
            if r is not None:
                text = r["req"].get("text", "")
                if text.count("\n") >= 1:
                    preds.add("auth.multiline_program")
                if "_internal" in text or "users" in text or "kg_acls" in text:
                    preds.add("prog.names_internal")
                if r["req"].get("sid"):
                    preds.add("req.session_bound")
                preds.add("who." + r["who"]["g"])
                if r["req"].get("bad"):
                    preds.add("prog.syntax_error")
            if tag == "HANG":
                preds.add("obs.hang")
            rejected[cid] = ({"scenario": byc[cid], "failing_step": step,
                              "request": r["req"] if r else None, "who": r["who"] if r else None,
                              "result": (r["res"] if r else None)}, info, preds)
    for cid, (case, info, preds) in sorted(rejected.items()):
        rep.reject(case, info, preds)
    if judged == 0:
        vlib.tool_error("no step of this property was judged (vacuous run)")
    sample = [{"users": s["users"], "acls": s["acls"], "requests": [x.get("text") for x in s["steps"] if x.get("judge")]}
              for s in scenarios[:3]]
    rep.cov.update({
        "evaluations": judged,
        "scenarios": len(scenarios),
        "distinct_nontrivial": len(nontriv),
        "rule": ("seeded scenarios: graphs g1,g2,default with marker facts/rules, identity eve (global viewer|editor, "
                 "graph role none|viewer|editor|owner per graph), 1-3 requests of 1-5 statements drawn from ~50 statement "
                 "templates (queries, inserts, deletes, conditional deletes, updates, rules, schemas, meta commands, "
                 ".kg use/create/drop, comments, _internal in every position), bound by target graph or by session; "
                 "a judged request is non-trivial if it has several statements or a non-trivial statement"
                 if prop != "C30" else
                 "seeded programs of 1-5 insert/bulk-insert/delete statements over 2 relations with a syntax error "
                 "(12 kinds) injected at a random position in half of them; every judged request counts as non-trivial"),
        "traces_validated_against_impl": len(scenarios),
        "samples": sample,
    })
    rep.assumptions += ["users and ACLs are installed by direct inserts into _internal (no password hashing in the loop)",
                        "state observed from the published snapshot of every graph (what queries are served from)"]
    rep.finish()


if __name__ == "__main__":
    run(sys.argv[1], sys.argv[sys.argv.index("--replay") + 1] if "--replay" in sys.argv else None)

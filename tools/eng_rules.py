"""Engine `rules`: C09 (rules behave the same inline, as session rules and as persistent rules).

impl -> spec: seeded rules over the rule grammar (all constant kinds incl. integral
floats and exponents, strings, booleans, vectors; arithmetic with precedence and
parentheses; functions; aggregates; negation; several clauses) are run by `ilv
drive-rules`: print / re-parse round trip through the real parser and Display, and
the answer of ?head(..) with the rule submitted inline, as a session rule, as a
persistent rule and after a restart.  spec/RuleTrace.tla judges every case
(round trip, agreement of the four modes, and Datalog!Answer for the rules inside
the fragment of Datalog.tla).
"""
import json
import os
import random
import sys

import vlib

FACTS = {
    "n": [[["i", 1]], [["i", 2]], [["i", 3]], [["i", -4]], [["i", 10]]],
    "e": [[["i", 1], ["i", 2]], [["i", 2], ["i", 3]], [["i", 2], ["i", 2]], [["i", 3], ["i", 1]], [["i", 1], ["i", 10]]],
    "f": [[["f", 500]], [["f", 2000]], [["f", -1500]], [["f", 1000000]], [["f", 3250]]],
    "s": [[["s", "a"]], [["s", "b c"]], [["s", "Q"]]],
    "b": [[["b", True]], [["b", False]]],
    "v": [[["i", 1], ["v", [1000, 2000]]], [["i", 2], ["v", [500, -2000]]]],
    "p": [[["i", 1], ["f", 2000]], [["i", 2], ["f", 500]], [["i", 3], ["f", 2000]]],
    "q": [[["i", 1], ["s", "a"]], [["i", 2], ["s", "b c"]]],
}
EDB = {"n": FACTS["n"], "e": FACTS["e"]}

FLOATS = ["2.0", "0.5", "1e2", "1.5e-1", "3.0", "100.0", "2.5E1", "1.0", "0.25", "10.0", "1.0e-3", "7.0"]
INTS = ["0", "1", "2", "3", "5", "7"]
STRS = ['"a"', '"b c"', '"Q"', '"x,y"', '"(z)"', '""']

PREC = {"+": 1, "-": 1, "*": 2, "/": 2, "%": 2}


def V(n):
    return {"t": "v", "n": n}


def C(i):
    return {"t": "c", "c": ["i", i]}


def sp(rng):
    return rng.choice(["", " ", " "])


def expr_text(rng, node, parent=0, right=False):
    """node = str leaf | (op, l, r).  Parenthesise where needed, sometimes redundantly."""
    if isinstance(node, str):
        return f"({node})" if rng.random() < 0.05 and not node.startswith("-") else node
    op, l, r = node
    p = PREC[op]
    s = expr_text(rng, l, p, False) + sp(rng) + op + sp(rng) + expr_text(rng, r, p, True)
    if p < parent or (right and p <= parent) or rng.random() < 0.1:
        return "(" + s + ")"
    return s


def expr_ast(node):
    if isinstance(node, str):
        return V(node) if node[0].isupper() else C(int(node))
    op, l, r = node
    return {"t": "bin", "op": op, "l": expr_ast(l), "r": expr_ast(r)}


def gen_iexpr(rng, var, depth, ops):
    if depth == 0 or rng.random() < 0.3:
        return var if rng.random() < 0.6 else rng.choice(INTS)
    return (rng.choice(ops), gen_iexpr(rng, var, depth - 1, ops), gen_iexpr(rng, var, depth - 1, ops))


def gen_fexpr(rng, var, depth):
    if depth == 0 or rng.random() < 0.3:
        c = rng.random()
        return var if c < 0.5 else rng.choice(FLOATS) if c < 0.9 else rng.choice(INTS)
    return (rng.choice(["+", "-", "*", "/"]), gen_fexpr(rng, var, depth - 1), gen_fexpr(rng, var, depth - 1))


def has_var(node, var):
    return node == var if isinstance(node, str) else has_var(node[1], var) or has_var(node[2], var)


def head(rng, name, args):
    return f"{name}({(',' + sp(rng)).join(args)})"


def clause(rng, h, kinds=None):
    """-> (text, ast or None, head arity, feature tags)"""
    k = rng.choice(kinds or ["hconst", "bconst", "batom", "iasg", "iasg", "fasg", "fasg", "mixasg", "cmp", "func", "func",
                             "agg", "neg", "vechead", "iasgdiv"])
    arrow = sp(rng) + "<-" + sp(rng)
    if k == "hconst":
        c = rng.choice(FLOATS + INTS + STRS + ["true", "false", "-3", "-2.0", "-0.5"])
        ast = None
        if c in INTS or c == "-3":
            ast = {"h": {"r": h, "a": [V("X"), C(int(c))]}, "b": [{"k": "pos", "r": "n", "a": [V("X")]}]}
        return f"{head(rng, h, ['X', c])}{arrow}n(X)", ast, 2, {"const_in_head", kind_of(c)}
    if k == "bconst":
        rel, var, pool = rng.choice([("f", "X", FLOATS), ("s", "X", STRS), ("b", "X", ["true", "false"]), ("n", "X", INTS + ["-4"])])
        c = rng.choice(pool)
        op = rng.choice(["=", "!="] if rel in ("s", "b") else ["=", "!=", "<", "<=", ">", ">="])
        ast = None
        if rel == "n":
            ast = {"h": {"r": h, "a": [V("X")]}, "b": [{"k": "pos", "r": "n", "a": [V("X")]},
                                                       {"k": "cmp", "op": op, "l": V("X"), "r": C(int(c))}]}
        return f"{head(rng, h, ['X'])}{arrow}{rel}(X),{sp(rng)}X{sp(rng)}{op}{sp(rng)}{c}", ast, 1, {"const_in_cmp", kind_of(c)}
    if k == "batom":
        which = rng.choice(["e", "p", "q"])
        if which == "e":
            c = rng.choice(["1", "2", "3"])
            ast = {"h": {"r": h, "a": [V("Y")]}, "b": [{"k": "pos", "r": "e", "a": [C(int(c)), V("Y")]}]}
            return f"{head(rng, h, ['Y'])}{arrow}e({c},{sp(rng)}Y)", ast, 1, {"const_in_atom", "int"}
        if which == "p":
            c = rng.choice(["2.0", "0.5", "2.0e0", "5e-1"])
            return f"{head(rng, h, ['X'])}{arrow}p(X,{sp(rng)}{c})", None, 1, {"const_in_atom", kind_of(c)}
        c = rng.choice(['"a"', '"b c"'])
        return f"{head(rng, h, ['X'])}{arrow}q(X,{sp(rng)}{c})", None, 1, {"const_in_atom", "string"}
    if k in ("iasg", "iasgdiv"):
        ops = ["+", "-", "*"] if k == "iasg" else ["+", "-", "*", "/", "%"]
        e = gen_iexpr(rng, "X", rng.randint(1, 3), ops)
        if isinstance(e, str):
            e = ("+", "X", e if e != "X" else "1")
        ast = None
        if k == "iasg":
            ast = {"h": {"r": h, "a": [V("X"), V("Y")]}, "b": [{"k": "pos", "r": "n", "a": [V("X")]},
                                                               {"k": "asg", "v": "Y", "e": expr_ast(e)}]}
        return f"{head(rng, h, ['X', 'Y'])}{arrow}n(X),{sp(rng)}Y{sp(rng)}={sp(rng)}{expr_text(rng, e)}", ast, 2, {"arith_int"} | ({"arith_div"} if k == "iasgdiv" else set())
    if k == "fasg":
        e = gen_fexpr(rng, "X", rng.randint(1, 3))
        if isinstance(e, str):
            e = ("*", "X", rng.choice(FLOATS))
        return f"{head(rng, h, ['X', 'Y'])}{arrow}f(X),{sp(rng)}Y{sp(rng)}={sp(rng)}{expr_text(rng, e)}", None, 2, {"arith_float", "float"}
    if k == "mixasg":
        e = gen_fexpr(rng, "X", rng.randint(1, 2))
        if isinstance(e, str):
            e = ("/", "X", rng.choice(FLOATS))
        return f"{head(rng, h, ['X', 'Y'])}{arrow}n(X),{sp(rng)}Y{sp(rng)}={sp(rng)}{expr_text(rng, e)}", None, 2, {"arith_mixed", "float"}
    if k == "cmp":
        if rng.random() < 0.5:
            l, r = gen_iexpr(rng, "X", 2, ["+", "-", "*"]), gen_iexpr(rng, "X", 1, ["+", "-", "*"])
            op = rng.choice(["<", "<=", ">", ">=", "=", "!="])
            ast = {"h": {"r": h, "a": [V("X")]}, "b": [{"k": "pos", "r": "n", "a": [V("X")]},
                                                       {"k": "cmp", "op": op, "l": expr_ast(l), "r": expr_ast(r)}]}
            return f"{head(rng, h, ['X'])}{arrow}n(X),{sp(rng)}{expr_text(rng, l)}{sp(rng)}{op}{sp(rng)}{expr_text(rng, r)}", ast, 1, {"cmp_arith"}
        l, r = gen_fexpr(rng, "X", 2), gen_fexpr(rng, "X", 1)
        op = rng.choice(["<", "<=", ">", ">="])
        return f"{head(rng, h, ['X'])}{arrow}n(X),{sp(rng)}{expr_text(rng, l)}{sp(rng)}{op}{sp(rng)}{expr_text(rng, r)}", None, 1, {"cmp_arith", "float"}
    if k == "func":
        fl = rng.choice(FLOATS)
        i = rng.choice(INTS)
        forms = [
            ("n(X)", f"abs(X - {i})"), ("n(X)", f"pow(X, {fl})"), ("n(X)", f"to_float(X) * {fl}"), ("n(X)", f"sign(X) + {i}"),
            ("f(X)", f"floor(X / {fl})"), ("f(X)", f"ceil(X * {fl})"), ("f(X)", f"abs(X) + {fl}"), ("f(X)", f"to_int(X + {fl})"),
            ("f(X)", f"sqrt(abs(X)) * {fl}"),
            ("s(X)", "len(X)"), ("s(X)", "upper(X)"), ("s(X)", f"concat(X, {rng.choice(STRS)})"), ("s(X)", "lower(X)"),
            ("s(X)", "substr(X, 0, 1)"), ("s(X)", f"replace(X, \"a\", {rng.choice(STRS)})"),
            ("v(X, W)", f"euclidean(W, [{fl}, 2.0])"), ("v(X, W)", "dot(W, [0.5, 2.0])"), ("v(X, W)", "vec_dim(W)"),
            ("v(X, W)", f"cosine(W, [1.0, {fl}])"), ("v(X, W)", "manhattan(W, [1, 2])"), ("v(X, W)", f"vec_scale(W, {fl})"),
        ]
        body, call = rng.choice(forms)
        return f"{head(rng, h, ['X', 'Y'])}{arrow}{body},{sp(rng)}Y{sp(rng)}={sp(rng)}{call}", None, 2, {"function", "fn_" + call.split("(")[0]}
    if k == "agg":
        f = rng.choice(["count", "sum", "min", "max", "avg", "count_distinct"])
        if rng.random() < 0.5:
            ast = None if f == "avg" else {"h": {"r": h, "a": [{"t": "agg", "f": f, "n": "X"}]}, "b": [{"k": "pos", "r": "n", "a": [V("X")]}]}
            return f"{h}({f}<X>){arrow}n(X)", ast, 1, {"aggregate", "agg_" + f}
        ast = None if f == "avg" else {"h": {"r": h, "a": [V("K"), {"t": "agg", "f": f, "n": "Y"}]},
                                       "b": [{"k": "pos", "r": "e", "a": [V("K"), V("Y")]}]}
        return f"{h}(K,{sp(rng)}{f}<Y>){arrow}e(K,{sp(rng)}Y)", ast, 2, {"aggregate", "agg_" + f}
    if k == "neg":
        ast = {"h": {"r": h, "a": [V("X")]}, "b": [{"k": "pos", "r": "n", "a": [V("X")]}, {"k": "neg", "r": "e", "a": [V("X"), {"t": "_"}]}]}
        return f"{head(rng, h, ['X'])}{arrow}n(X),{sp(rng)}!e(X,{sp(rng)}_)", ast, 1, {"negation", "wildcard"}
    if k == "vechead":
        c = rng.choice(["[1.0, 2.0]", "[0.5, -2.0]", "[1e1, 2.5]", "[3.0]", "[1, 2]"])
        return f"{head(rng, h, ['X', c])}{arrow}n(X)", None, 2, {"const_in_head", "vector"}
    raise ValueError(k)


def kind_of(c):
    if c.startswith('"'):
        return "string"
    if c in ("true", "false"):
        return "bool"
    try:
        int(c)
        return "int"
    except ValueError:
        f = float(c)
        return "float_integral" if f == int(f) else "float"


def gen_case(rng, cid):
    h = "h"
    t1, a1, ar, tags = clause(rng, h)
    clauses, asts = [t1], [a1]
    if rng.random() < 0.2:
        # a second clause of the same arity and head shape
        for _ in range(20):
            t2, a2, ar2, tg2 = clause(rng, h)
            if ar2 == ar and ("aggregate" in tags) == ("aggregate" in tg2) and "aggregate" not in tags:
                clauses.append(t2)
                asts.append(a2)
                tags = tags | tg2 | {"two_clauses"}
                break
    vars_ = ["A", "B", "C"][:ar]
    c = {"case": cid, "clauses": clauses, "facts": FACTS, "head": h, "query": f"?{h}({', '.join(vars_)})", "tags": sorted(tags)}
    if all(a is not None for a in asts):
        c["ast"] = asts
        c["edb"] = EDB
    return c


def run(prop, replay=None):
    t = vlib.tier()
    rep = vlib.Report(prop)
    wd = vlib.workdir(prop)
    vlib.build_harness()
    rng = random.Random(vlib.seed() * 611953 + 9)
    if replay:
        with open(replay) as f:
            cases = [json.load(f)["case_input"]]
    else:
        n = int(os.environ.get("VERIF_N", {"quick": 1000, "thorough": 30000}[t]))
        cases = [gen_case(rng, i) for i in range(1, n + 1)]
    cfile = os.path.join(wd, "cases.ndjson")
    trace = os.path.join(wd, "trace.ndjson")
    with open(cfile, "w") as f:
        for c in cases:
            f.write(json.dumps(c) + "\n")
    vlib.ilv(["drive-rules", "--cases", cfile, "--out", trace, "--root", os.path.join(wd, "data"), "--threads", 14], timeout=7200)
    try:
        res = vlib.tlc_trace("RuleTrace", trace, shards=12, timeout=7200)
    except vlib.ToolError as e:
        vlib.tool_error(str(e))
    rep.add_tlc(res)
    byc = {c["case"]: c for c in cases}
    recs = {}
    with open(trace) as f:
        for line in f:
            r = json.loads(line)
            if r["ev"] == "openfail":
                vlib.tool_error("fresh handler failed to open: " + r["err"])
            recs[r["case"]] = r
    judged = skipped = infrag = answered = 0
    rejected = {}
    texts = set()
    for ln in res.lines:
        if not (isinstance(ln, list) and ln[0] == "VERDICT"):
            continue
        _, tag, cid, _, ok, info = ln
        if tag == "C09skip":
            skipped += 1
            continue
        if tag not in (prop, "HANG"):
            continue
        judged += 1
        if isinstance(info, dict):
            infrag += 1 if info.get("infrag") else 0
            if info.get("answered") and info.get("rows", 0) > 0:
                answered += 1
                texts.add(tuple(byc[cid]["clauses"]))
        if not ok and cid not in rejected:
            c = byc[cid]
            preds = {"obs.hang"} if tag == "HANG" else ({"what." + str(info.get("what"))} | {"rule." + x for x in c["tags"]})
            r = recs.get(cid, {})
            if tag != "HANG":
                for cl in r.get("clauses", []):
                    if cl.get("parsed") and not cl.get("reparse_ok"):
                        preds.add("print.unparsable")
                for m in info.get("differing", []):
                    preds.add("differs." + m)
            rejected[cid] = ({"case_input": c, "clauses": r.get("clauses"), "modes": r.get("modes")}, info, preds)
    for cid, (case, info, preds) in sorted(rejected.items()):
        rep.reject(case, info, preds)
    if answered == 0:
        vlib.tool_error("no rule was answered with rows (vacuous run)")
    rep.cov.update({
        "evaluations": judged,
        "rules_not_accepted_by_parser": skipped,
        "rules_in_model_fragment": infrag,
        "distinct_nontrivial": len(texts),
        "rule": "seeded rules: constants of every kind in heads, comparisons and body atoms (ints, negative ints, floats incl. "
                "integral floats and exponents, strings with spaces/commas/parentheses, booleans, vectors), integer / float / mixed "
                "arithmetic of depth <= 3 with random (also redundant) parentheses and spacing, comparisons between expressions, 21 "
                "function forms, 6 aggregates with and without group key, negation with wildcard, 20% two-clause rules; base facts "
                "fixed (8 relations). Non-trivial = accepted by the parser and answered with at least one row; distinct = distinct "
                "rule text",
        "traces_validated_against_impl": len(cases),
        "samples": [c["clauses"] for c in cases[:4]],
    })
    rep.assumptions += ["only rules the parser accepts are judged (the property's premise)",
                        "each mode runs against its own graph holding the same base facts; rows are compared as sets of exact "
                        "tokens (value kind and bit pattern)"]
    rep.finish()


if __name__ == "__main__":
    run(sys.argv[1], sys.argv[sys.argv.index("--replay") + 1] if "--replay" in sys.argv else None)

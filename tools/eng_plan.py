"""Engine `plan`: C05 (IR rewrite passes preserve plan semantics).

spec/Plan.tla gives every IR plan tree a denotation (Eval).  `ilv drive-plans`
produces plan trees - seeded random well-formed trees over typed base relations
(all node kinds, all predicate forms) and the trees the real IRBuilder builds for
generated rules - runs every rewrite pass of the real code on each (join planning,
boolean specialization, optimizer fixpoint + fusion, and all three in pipeline
order), serializes the trees before and after, and executes each with the real
CodeGenerator on a random small database.  spec/PlanTrace.tla evaluates the trees
itself and judges: Eval(after) = Eval(before) and exec(after) = Eval(before), for
every record whose unoptimized tree the executor and the specification agree on.
"""
import json
import os
import random
import sys

import vlib

RELS = {"a": "II", "b": "II", "c": "III", "s": "IS", "f": "IF", "t": "IB"}
STRS = ['"a"', '"ab"', '"b"', '"c"']


def gen_clause(rng, head_ar, agg):
    """One rule body over the base relations; returns (head args, body text)."""
    ivars = []          # int variables bound so far
    body = []
    extra = []
    fresh = [0]

    def var():
        fresh[0] += 1
        return f"V{fresh[0]}"

    for _ in range(rng.randint(1, 3)):
        rel = rng.choice(["a", "a", "b", "b", "c", "s", "f", "t"])
        args = []
        for ty in RELS[rel]:
            if ty == "I":
                if ivars and rng.random() < 0.5:
                    args.append(rng.choice(ivars))
                elif rng.random() < 0.1:
                    args.append(str(rng.randint(0, 3)))
                elif rng.random() < 0.08:
                    args.append("_")
                else:
                    v = var()
                    ivars.append(v)
                    args.append(v)
            else:
                v = var()
                args.append(v)
                if ty == "S" and rng.random() < 0.7:
                    extra.append(f"{v} {rng.choice(['=', '!=', '<', '<=', '>', '>='])} {rng.choice(STRS)}")
                if ty == "F" and rng.random() < 0.7:
                    extra.append(f"{v} {rng.choice(['=', '!=', '<', '<=', '>', '>='])} {rng.choice(['0.5', '1.0', '1.5', '2.0'])}")
                if ty == "B" and rng.random() < 0.7:
                    extra.append(f"{v} {rng.choice(['=', '!='])} {rng.choice(['true', 'false'])}")
        body.append(f"{rel}({', '.join(args)})")
    if not ivars:
        v = var()
        ivars.append(v)
        body.append(f"a({v}, _)")
    if rng.random() < 0.3:
        rel = rng.choice(["a", "b"])
        body.append(f"!{rel}({rng.choice(ivars)}, {rng.choice(ivars + ['_'])})")
    for _ in range(rng.randint(0, 2)):
        c = rng.random()
        x = rng.choice(ivars)
        op = rng.choice(["=", "!=", "<", "<=", ">", ">="])
        if c < 0.4:
            body.append(f"{x} {op} {rng.randint(0, 3)}")
        elif c < 0.7 and len(ivars) > 1:
            body.append(f"{x} {op} {rng.choice(ivars)}")
        else:
            body.append(f"{x} {op} {rng.choice(ivars)} {rng.choice(['+', '-', '*'])} {rng.randint(0, 3)}")
    body += extra
    bound = list(ivars)
    if rng.random() < 0.3:
        y = var()
        body.append(f"{y} = {rng.choice(ivars)} {rng.choice(['+', '-', '*'])} {rng.choice(ivars + [str(rng.randint(0, 3))])}")
        bound.append(y)
    if agg:
        key = [rng.choice(bound) for _ in range(head_ar - 1)]
        head = key + [f"{rng.choice(['count', 'sum', 'min', 'max', 'count_distinct'])}<{rng.choice(bound)}>"]
    else:
        head = [rng.choice(bound) for _ in range(head_ar)]
    return head, ", ".join(body)


def gen_program(rng):
    ar = rng.randint(1, 3)
    agg = rng.random() < 0.15
    lines = []
    for _ in range(1 if agg else rng.randint(1, 3)):
        head, body = gen_clause(rng, ar, agg)
        lines.append(f"h({', '.join(head)}) <- {body}")
    return "\n".join(lines)


def run(prop, replay=None):
    t = vlib.tier()
    rep = vlib.Report(prop)
    wd = vlib.workdir(prop)
    vlib.build_harness()
    rng = random.Random(vlib.seed() * 15731 + 5)
    trace = os.path.join(wd, "trace.ndjson")
    pfile = os.path.join(wd, "programs.ndjson")
    if replay:
        with open(replay) as f:
            c = json.load(f)
        with open(trace, "w") as f:
            f.write(json.dumps(c["record"]) + "\n")
    else:
        nr = int(os.environ.get("VERIF_N", {"quick": 2500, "thorough": 60000}[t]))
        npr = int(os.environ.get("VERIF_N_PROG", {"quick": 1500, "thorough": 30000}[t]))
        with open(pfile, "w") as f:
            for i in range(npr):
                f.write(json.dumps({"source": gen_program(rng)}) + "\n")
        # several processes (the plan executor is single-threaded per call)
        from concurrent.futures import ThreadPoolExecutor
        NP = 12
        parts = []

        def drive(pi):
            o = os.path.join(wd, f"trace{pi}.ndjson")
            pf = os.path.join(wd, f"programs{pi}.ndjson")
            with open(pfile) as f:
                lines = f.readlines()[pi::NP]
            with open(pf, "w") as f:
                f.writelines(lines)
            vlib.ilv(["drive-plans", "--out", o, "--seed", vlib.seed() * 100 + pi, "--random", nr // NP, "--programs", pf,
                      "--depth", 4], timeout=7200)
            return o

        with ThreadPoolExecutor(max_workers=NP) as ex:
            parts = list(ex.map(drive, range(NP)))
        n = 0
        with open(trace, "w") as out:
            for pi, o in enumerate(parts):
                for line in open(o):
                    r = json.loads(line)
                    n += 1
                    r["case"] = n
                    out.write(json.dumps(r) + "\n")
    try:
        res = vlib.tlc_trace("PlanTrace", trace, shards=14, timeout=7200)
    except vlib.ToolError as e:
        vlib.tool_error(str(e))
    rep.add_tlc(res)
    recs = {}
    with open(trace) as f:
        for line in f:
            r = json.loads(line)
            recs[(r["case"], r["idx"])] = r
    judged = unexplained = 0
    nontriv = set()
    changed = {}
    origins = {}
    rejected = {}
    unexpl_samples = []

    def ops_of(j, acc):
        if isinstance(j, dict):
            if "op" in j:
                acc.add("node." + j["op"])
            if "t" in j and j["t"] in ("cc", "cols", "carith", "arithc", "and", "or", "true", "false"):
                acc.add("pred." + j["t"])
            for v in j.values():
                ops_of(v, acc)
        elif isinstance(j, list):
            for v in j:
                ops_of(v, acc)
        return acc

    for ln in res.lines:
        if not (isinstance(ln, list) and ln[0] == "VERDICT"):
            continue
        _, tag, cid, idx, ok, info = ln
        if tag == "C05u":
            unexplained += 1
            if len(unexpl_samples) < 5:
                r = recs[(cid, idx)]
                unexpl_samples.append({"before": r["before"], "exec": r["exec"]["before"], "info": info})
            continue
        if tag != prop:
            continue
        judged += 1
        origins[info["origin"]] = origins.get(info["origin"], 0) + 1
        for p in info.get("changed", []):
            changed[p] = changed.get(p, 0) + 1
        if info.get("changed") and info.get("rows", 0) > 0:
            nontriv.add((cid, idx))
        if not ok and (cid, idx) not in rejected:
            r = recs[(cid, idx)]
            preds = ops_of(r["before"], set())
            preds.add("origin." + r["origin"])
            for p in info.get("panicked", []):
                preds.add("panicked." + p)
            for p in info.get("eval_differs", []):
                preds.add("eval_differs." + p)
            for p in info.get("exec_differs", []):
                preds.add("exec_differs." + p)
            rejected[(cid, idx)] = ({"record": r}, info, preds)
    for key, (case, info, preds) in sorted(rejected.items()):
        rep.reject(case, info, preds)
    if judged == 0:
        vlib.tool_error("no plan was judged (vacuous run)")
    rep.cov.update({
        "evaluations": judged,
        "plans_not_explained_by_spec": unexplained,
        "unexplained_samples": unexpl_samples,
        "plans_by_origin": origins,
        "plans_changed_by_pass": changed,
        "distinct_nontrivial": len(nontriv),
        "rule": "seeded random well-formed trees of depth <= 4 over 6 typed base relations (Scan, Map, Filter, Join, Antijoin, "
                "Distinct, Union, Compute, Aggregate over a Distinct; every predicate form incl. string / float / bool constants, "
                "column-column, column-vs-arithmetic, arithmetic-vs-constant, And / Or / True / False) and the trees the real "
                "IRBuilder builds for generated 1-3 clause rules (joins, negation, wildcards, constants, comparisons, assignments, "
                "aggregates); each on its own random database (0-4 rows per relation, values 0..3). A plan is judged only if the "
                "executor's result for the unoptimized tree equals Plan!Eval (binding of the specification). Non-trivial = some "
                "pass changed the tree and the relation is non-empty",
        "traces_validated_against_impl": judged + unexplained,
        "samples": [{"origin": r["origin"], "rule_text": r["text"], "before": r["before"],
                     "after_optimizer": r["after"]["optimizer"]["plan"], "exec_before": r["exec"]["before"]["rows"][:5]}
                    for r in list(recs.values())[:2]],
    })
    rep.assumptions += ["a plan denotes a set of rows; aggregates are generated over a Distinct input (multiplicities of "
                        "intermediate rows are not modelled)",
                        "integer arithmetic with + - * only; floats and strings only compared (encoded order-preservingly)"]
    rep.finish()


if __name__ == "__main__":
    run(sys.argv[1], sys.argv[sys.argv.index("--replay") + 1] if "--replay" in sys.argv else None)

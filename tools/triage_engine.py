#!/usr/bin/env python3
"""triage_engine.py <prop> <n> <seed>: run a sample, print rejection clusters not covered by known findings."""
import sys, json, collections, os
sys.path.insert(0, os.path.dirname(os.path.abspath(__file__)))
import vlib, eng_datalog as E
prop, n, seed = sys.argv[1], int(sys.argv[2]), int(sys.argv[3])
wd = vlib.workdir("triage_" + prop)
trace = os.path.join(wd, "t.ndjson")
vlib.ilv(["drive-engine", "--n", n, "--seed", seed, "--focus", E.FOCUS[prop], "--out", trace], timeout=7200)
res = vlib.tlc_trace("EngineTrace", trace, shards=12, timeout=7200)
cases = {json.loads(l)["case"]: json.loads(l) for l in open(trace)}
known = vlib.load_known(prop)
cl = collections.Counter(); ex = {}; tot = 0; rej = 0; cov = collections.Counter()
for ln in res.lines:
    if ln[0] == "VERDICT" and ln[1] == prop:
        tot += 1
        if not ln[3]:
            rej += 1
            c = cases[ln[2]]
            P = E.preds_of(c) | E.verdict_preds(prop, ln[4])
            m = [e["id"] for e in known if set(e["signature"]).issubset(P)]
            if m:
                cov[m[0]] += 1
                continue
            vp = frozenset(p for p in P if not p.startswith("prog.")) 
            key = (vp, frozenset(p for p in P if p in ("prog.has_scc_ge2", "prog.has_agg", "prog.has_neg", "prog.atom_repeats_var",
                   "prog.has_wildcard", "prog.has_cmp", "prog.has_asg", "prog.recursive", "prog.agg_with_cmp", "prog.cmp_eq", "prog.has_join")))
            cl[key] += 1
            if key not in ex or len(c["text"]) < len(ex[key][0]["text"]):
                ex[key] = (c, ln[4])
print(f"{prop}: judged {tot} rejected {rej} covered {dict(cov)} uncovered {sum(cl.values())}")
for k, v in cl.most_common(25):
    c, info = ex[k]
    print(v, sorted(k[0]), sorted(x[5:] for x in k[1]))
    print("     ", c["text"].replace("\n", " ; ")[:260])

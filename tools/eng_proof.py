"""Engine `proof`: C21, C22, C23.  Generated programs are loaded into a real
Handler as persistent rules; `.why` proof DAGs for answer tuples and `.why_not`
explanations for candidate tuples are judged by spec/ProofTrace.tla against the
stratified least model of the same program (spec/Datalog.tla)."""
import json
import os
import sys

import vlib
import eng_datalog


def run(prop, replay=None):
    t = vlib.tier()
    rep = vlib.Report(prop)
    wd = vlib.workdir(prop)
    vlib.build_harness()
    trace = os.path.join(wd, "proofs.ndjson")
    n = int(os.environ.get("VERIF_N", {"quick": 250, "thorough": 5000}[t]))
    vlib.ilv(["drive-proof", "--n", n, "--seed", vlib.seed(), "--out", trace, "--root", os.path.join(wd, "data")], timeout=7200)
    try:
        res = vlib.tlc_trace("ProofTrace", trace, shards=12, timeout=7200)
    except vlib.ToolError as e:
        vlib.tool_error(str(e))
    rep.add_tlc(res)
    cases = {}
    with open(trace) as f:
        for line in f:
            r = json.loads(line)
            cases[r["case"]] = r
    judged, nontriv, rejected = 0, set(), {}
    for ln in res.lines:
        if ln[0] != "VERDICT":
            continue
        _, tag, cid, i, ok, info = ln
        if tag not in (prop, "HANG"):
            continue
        judged += 1
        nontriv.add((cid, i))
        if not ok:
            c = cases[cid]
            if tag == "HANG":
                hp = {"obs.hang"} | (eng_datalog.preds_of(c) if c.get("prog") else set())
                rejected[(cid, "hang")] = ({"case": cid, "text": c.get("text"), "edb": c.get("edb")}, info, hp)
                continue
            preds = eng_datalog.preds_of(c)
            entry = (c["why"] if prop in ("C21", "C22") else c["whynot"])[i - 1]
            if prop == "C23":
                preds.add("tuple.derived" if info.get("derived") else "tuple.not_derived")
                heads = {cl["h"]["r"] for cl in c["prog"]}
                for tr in entry["trees"]:
                    for n in tr["nodes"].values():
                        bl = (n.get("why_not") or {}).get("blocker") or {}
                        if bl.get("type") == "body_atom_failed" and bl.get("predicate_text", "").split("(")[0] in heads:
                            preds.add("whynot.blocker_on_derived_relation")
            if prop in ("C21", "C22"):
                preds.add("tree.present" if info.get("hasroot") else "tree.absent")
                kinds = {n["kind"] + (":" + n.get("source", "") if n["kind"] == "fact" else "")
                         for tr in entry["trees"] for n in tr["nodes"].values()}
                for k in kinds:
                    preds.add("node." + k)
                heads = {cl["h"]["r"] for cl in c["prog"]}
                if any(n["kind"] == "negation" and n["conclusion"]["pred"] in heads
                       for tr in entry["trees"] for n in tr["nodes"].values()):
                    preds.add("proof.negation_on_derived_relation")
            key = (cid, tuple(sorted(p for p in preds if not p.startswith("prog."))))
            if key not in rejected:
                rejected[key] = ({"text": c["text"], "edb": c["edb"], "q": c["q"], "tuple": entry["t"], "response": entry},
                                 info, preds)
    for key, (c, info, preds) in sorted(rejected.items(), key=lambda x: str(x[0])):
        rep.reject(c, info, preds)
    if judged == 0:
        vlib.tool_error("nothing judged")
    rep.cov.update({
        "evaluations": judged,
        "programs": len(cases),
        "distinct_nontrivial": len(nontriv),
        "rule": "seeded stratified programs without aggregates (<=3 derived relations, joins, constants, comparisons, negation, "
                "self recursion, 8% assignments) registered as persistent rules in a real Handler; .why for up to 5 answer tuples, "
                ".why_not for 5 random candidate tuples plus 2 answer tuples; every judged tuple is non-trivial; distinct = "
                "(program, tuple)",
        "traces_validated_against_impl": len(cases),
        "samples": [{"text": c["text"], "answers": c["answers"][:3]} for c in list(cases.values())[:2] if c.get("ev") == "proof"],
    })
    rep.finish()


if __name__ == "__main__":
    run(sys.argv[1])

"""Shared pipeline pieces for the /verif checks.

Contract (MANIFEST.json): exit 0 = property held on everything explored (known
findings are printed as KNOWN-FINDING lines), exit 1 + `VIOLATION property=<id>
replay=<path>` = the real code produced an observation the Layer-A
specification rejects and no known finding covers it, exit 2 + `TOOL-ERROR` =
the machinery itself failed (build, TLC, timeout) -- never a verdict.
"""
import hashlib
import json
import os
import re
import shutil
import subprocess
import sys
import time
from concurrent.futures import ThreadPoolExecutor

VERIF = os.path.dirname(os.path.dirname(os.path.abspath(__file__)))
SPEC = os.path.join(VERIF, "spec")
WORK = os.path.join(VERIF, "work")
HARNESS = os.path.join(VERIF, "harness")
ILV = os.path.join(HARNESS, "target", "debug", "ilv")
REPLAYS = os.path.join(VERIF, "replays")
EVIDENCE = os.path.join(VERIF, "evidence")
KNOWN = os.path.join(VERIF, "known_findings.json")
TLA_JAR = "/opt/veriftools/tla/tla2tools.jar"


class ToolError(Exception):
    pass


def tool_error(msg):
    print(f"TOOL-ERROR {msg}", flush=True)
    sys.exit(2)


def tier():
    t = os.environ.get("VERIF_TIER", "quick")
    return t if t in ("quick", "thorough") else "quick"


def seed():
    try:
        return int(os.environ.get("VERIF_SEED", "1"))
    except ValueError:
        return 1


def workdir(name):
    d = os.path.join(WORK, name)
    shutil.rmtree(d, ignore_errors=True)
    os.makedirs(d, exist_ok=True)
    return d


# --------------------------------------------------------------------------
# build


def build_harness():
    """Rebuild the harness against /repo's current working tree (hooks on)."""
    env = dict(os.environ)
    env["CARGO_NET_OFFLINE"] = "true"
    lock = os.path.join(HARNESS, "Cargo.lock")
    if not os.path.exists(lock):
        shutil.copy("/repo/Cargo.lock", lock)
    t0 = time.time()
    p = subprocess.run(
        ["cargo", "build", "--offline", "--quiet"],
        cwd=HARNESS, env=env, stdout=subprocess.PIPE, stderr=subprocess.STDOUT, text=True,
    )
    if p.returncode != 0:
        # a stale lock file after a dependency change in /repo: refresh once
        shutil.copy("/repo/Cargo.lock", lock)
        p = subprocess.run(
            ["cargo", "build", "--offline", "--quiet"],
            cwd=HARNESS, env=env, stdout=subprocess.PIPE, stderr=subprocess.STDOUT, text=True,
        )
    if p.returncode != 0:
        sys.stdout.write(p.stdout[-4000:])
        tool_error("harness build failed (cargo build --offline in /verif/harness)")
    return time.time() - t0


def ilv(args, timeout=3600, cwd=None, env=None, check=True):
    e = dict(os.environ)
    if env:
        e.update(env)
    try:
        p = subprocess.run([ILV] + [str(a) for a in args], cwd=cwd, env=e, timeout=timeout,
                           stdout=subprocess.PIPE, stderr=subprocess.PIPE, text=True)
    except subprocess.TimeoutExpired:
        tool_error(f"ilv {args[0]} timed out after {timeout}s")
    if check and p.returncode != 0:
        sys.stdout.write(p.stderr[-3000:])
        tool_error(f"ilv {args[0]} exited {p.returncode}")
    return p


# --------------------------------------------------------------------------
# TLA+ value parser (what PrintT prints)

_tok = re.compile(r'\s*(<<|>>|\[|\]|\{|\}|\(|\)|\|->|:>|@@|,|"(?:[^"\\]|\\.)*"|-?\d+|[A-Za-z_][A-Za-z0-9_]*)')


def parse_tla(s):
    toks = _tok.findall(s)
    pos = [0]

    def peek():
        return toks[pos[0]] if pos[0] < len(toks) else None

    def nxt():
        t = toks[pos[0]]
        pos[0] += 1
        return t

    def val():
        t = nxt()
        if t == "<<":
            out = []
            while peek() != ">>":
                out.append(val())
                if peek() == ",":
                    nxt()
            nxt()
            return out
        if t == "{":
            out = []
            while peek() != "}":
                out.append(val())
                if peek() == ",":
                    nxt()
            nxt()
            return out
        if t == "[":
            out = {}
            while peek() != "]":
                k = nxt()
                assert nxt() == "|->", s
                out[k] = val()
                if peek() == ",":
                    nxt()
            nxt()
            return out
        if t == "(":
            # function printed as (k :> v @@ k :> v)
            out = {}
            while peek() != ")":
                k = val()
                assert nxt() == ":>", s
                out[json.dumps(k) if not isinstance(k, str) else k] = val()
                if peek() == "@@":
                    nxt()
            nxt()
            return out
        if t == "TRUE":
            return True
        if t == "FALSE":
            return False
        if t.startswith('"'):
            return json.loads(t)
        if re.fullmatch(r"-?\d+", t):
            return int(t)
        return t

    return val()


# --------------------------------------------------------------------------
# TLC

_JOPTS = "-Xss1g -Dtlc2.tool.queue.IStateQueue=StateDeque"


class TlcResult:
    def __init__(self):
        self.lines = []      # parsed PrintT tuples
        self.states = 0
        self.distinct = 0
        self.ok = True
        self.raw_tail = ""
        self.coverage = {}


def _run_tlc_once(spec, cfg, env_extra, metadir, timeout, workers=1, extra=(), heap="3g", jopts=_JOPTS):
    env = dict(os.environ)
    env.update(env_extra)
    env["JAVA_TOOL_OPTIONS"] = jopts
    cmd = ["java", f"-Xmx{heap}", "-XX:+UseParallelGC", "-cp",
           f"{TLA_JAR}:/opt/veriftools/tla/CommunityModules-deps.jar", "tlc2.TLC",
           "-workers", str(workers), "-metadir", metadir, "-cleanup", "-noGenerateSpecTE",
           "-config", cfg] + list(extra) + [spec]
    try:
        p = subprocess.run(cmd, cwd=SPEC, env=env, timeout=timeout, stdout=subprocess.PIPE,
                           stderr=subprocess.STDOUT, text=True)
    except subprocess.TimeoutExpired:
        raise ToolError(f"TLC timed out after {timeout}s on {os.path.basename(spec)}")
    return p.returncode, p.stdout


def _parse_tlc_out(out, res):
    for line in out.splitlines():
        if line.startswith('"[') or line.startswith('"{'):
            try:
                res.lines.append(json.loads(json.loads(line)))
            except Exception as e:  # noqa
                raise ToolError(f"cannot parse TLC output line: {line[:200]}")
        m = re.match(r"(\d+) states generated, (\d+) distinct states found", line)
        if m:
            res.states += int(m.group(1))
            res.distinct += int(m.group(2))
        m = re.match(r"<(\w+) line \d+, col \d+ to line \d+, col \d+ of module (\w+)>: (\d+):(\d+)", line)
        if m:
            key = f"{m.group(2)}!{m.group(1)}"
            res.coverage[key] = res.coverage.get(key, 0) + int(m.group(4))


def tlc_trace(spec_name, trace_path, shards=8, timeout=900, cfg_name=None, extra_env=None, unit_start=None):
    """Validate an ndjson trace against <spec_name>.tla.  The trace is split at
    record boundaries into shards that run as parallel single-worker TLC
    processes (cases are independent).  Returns a TlcResult with every printed
    tuple.  Any TLC failure is a ToolError, never a verdict."""
    spec = os.path.join(SPEC, spec_name + ".tla")
    cfg = os.path.join(SPEC, (cfg_name or spec_name) + ".cfg")
    trace_path = os.path.abspath(trace_path)
    with open(trace_path) as f:
        recs = f.readlines()
    if not recs:
        raise ToolError("empty trace")
    # units = groups of records that must stay together (a unit starts at a
    # record containing `unit_start`, e.g. the "reset" event of a case)
    units = []
    for r in recs:
        if unit_start is None or unit_start in r or not units:
            units.append([r])
        else:
            units[-1].append(r)
    shards = max(1, min(shards, len(units)))
    base = trace_path + ".shards"
    shutil.rmtree(base, ignore_errors=True)
    os.makedirs(base)
    per = (len(units) + shards - 1) // shards
    jobs = []
    for i in range(shards):
        part = [r for u in units[i * per:(i + 1) * per] for r in u]
        if not part:
            continue
        pth = os.path.join(base, f"s{i}.ndjson")
        with open(pth, "w") as f:
            f.writelines(part)
        jobs.append((i, pth, len(part)))
    res = TlcResult()

    def one(job):
        i, pth, n = job
        env = {"TRACE": pth}
        if extra_env:
            env.update(extra_env)
        rc, out = _run_tlc_once(spec, cfg, env, os.path.join(base, f"meta{i}"), timeout)
        return rc, out, n

    with ThreadPoolExecutor(max_workers=len(jobs)) as ex:
        outs = list(ex.map(one, jobs))
    for rc, out, n in outs:
        res.raw_tail = out[-3000:]
        if rc != 0 or "Model checking completed" not in out or 'UNCONSUMED' in out:
            with open(os.path.join(WORK, "tlc_fail.log"), "w") as f:
                f.write(out)
            errs = [ln for ln in out.splitlines() if not ln.startswith('"')]
            i = next((k for k, ln in enumerate(errs) if ln.startswith("Error")), max(0, len(errs) - 30))
            sys.stdout.write("\n".join(errs[i:i + 30]) + "\n")
            raise ToolError(f"TLC failed on {spec_name} (rc={rc})")
        _parse_tlc_out(out, res)
    shutil.rmtree(base, ignore_errors=True)
    return res


def tlc_model(spec_name, cfg_name=None, workers=4, timeout=1200, heap="6g", extra=(), expect_violation=False,
              env_extra=None, simulate=None):
    """Run an exhaustive (or -simulate) TLC model.  Returns (TlcResult, output, violated)."""
    spec = os.path.join(SPEC, spec_name + ".tla")
    cfg = os.path.join(SPEC, (cfg_name or spec_name) + ".cfg")
    meta = os.path.join(WORK, "tlcmeta_" + (cfg_name or spec_name) + f"_{os.getpid()}")
    shutil.rmtree(meta, ignore_errors=True)
    ex = list(extra) + ["-coverage", "1"]
    if simulate:
        ex += ["-simulate", simulate]
    rc, out = _run_tlc_once(spec, cfg, env_extra or {}, meta, timeout, workers=workers, extra=ex, heap=heap,
                            jopts="-Xss1g")
    shutil.rmtree(meta, ignore_errors=True)
    res = TlcResult()
    _parse_tlc_out(out, res)
    violated = ("Invariant" in out and "is violated" in out) or "Temporal properties were violated" in out \
        or "Action property" in out and "is violated" in out
    finished = "Model checking completed" in out or "Finished in" in out or violated or simulate
    if not finished or (rc != 0 and not violated):
        sys.stdout.write(out[-3000:])
        raise ToolError(f"TLC failed on model {cfg_name or spec_name} (rc={rc})")
    if violated and not expect_violation:
        sys.stdout.write(out[-3000:])
    return res, out, violated


# --------------------------------------------------------------------------
# known findings, replays, evidence


def load_known(prop):
    if not os.path.exists(KNOWN):
        return []
    with open(KNOWN) as f:
        k = json.load(f)
    return [e for e in k.get("findings", [])
            if prop in e.get("properties", [e.get("property")]) and e.get("status", "open") == "open"]


def write_replay(prop, case):
    os.makedirs(REPLAYS, exist_ok=True)
    txt = json.dumps(case, sort_keys=True)
    h = hashlib.sha1(txt.encode()).hexdigest()[:12]
    p = os.path.join(REPLAYS, f"{prop}-{h}.json")
    with open(p, "w") as f:
        f.write(txt + "\n")
    return p


class Report:
    """Collects rejected observations, classifies them and ends the check."""

    def __init__(self, prop, level="model_checking"):
        self.prop = prop
        self.level = level
        self.t0 = time.time()
        self.rejected = []       # (case_json, info, preds)
        self.cov = {"states": 0, "transitions": 0, "traces_validated_against_impl": 0, "samples": [],
                    "evaluations": 0, "distinct_nontrivial": 0, "rule": "", "trusted_base": [
                        "TLC/SANY", "harness projection functions (harness/src/val.rs)"]}
        self.assumptions = []
        self.notes = []

    def add_tlc(self, res):
        self.cov["states"] += res.distinct
        self.cov["transitions"] += res.states

    def reject(self, case, info, preds):
        self.rejected.append((case, info, set(preds)))

    def finish(self, extra_cov=None):
        known = load_known(self.prop)
        viol = []
        hits = {}
        for case, info, preds in self.rejected:
            m = None
            for e in known:
                if set(e["signature"]).issubset(preds):
                    m = e
                    break
            if m:
                hits.setdefault(m["id"], [m, 0])[1] += 1
            else:
                viol.append((case, info, preds))
        for fid, (e, n) in sorted(hits.items()):
            print(f"KNOWN-FINDING: property={self.prop} {fid}: {e['what_fails']} ({n} rejected case(s) match)")
        if extra_cov:
            self.cov.update(extra_cov)
        self.cov["rejected_cases"] = len(self.rejected)
        self.cov["known_finding_hits"] = {k: v[1] for k, v in hits.items()}
        paths = []
        for case, info, preds in viol[:10]:
            c = dict(case) if isinstance(case, dict) else {"case": case}
            c["_verdict"] = info
            c["_preds"] = sorted(preds)
            c["_property"] = self.prop
            p = write_replay(self.prop, c)
            paths.append(p)
            print(f"VIOLATION property={self.prop} replay={p}")
        ev = {
            "property_id": self.prop,
            "tier": tier(),
            "seed": seed(),
            "level": self.level,
            "coverage": self.cov,
            "assumptions": self.assumptions,
            "wall_s": round(time.time() - self.t0, 2),
            "violations": len(viol),
        }
        os.makedirs(EVIDENCE, exist_ok=True)
        # a property decided by two engines: the first part writes <id>.<suffix>.json
        # (VERIF_EVIDENCE_SUFFIX), the second part merges it (VERIF_MERGE_PART)
        part = os.environ.get("VERIF_MERGE_PART")
        if part and os.path.exists(part):
            with open(part) as f:
                other = json.load(f)
            for k in ("states", "transitions", "traces_validated_against_impl", "evaluations", "distinct_nontrivial"):
                ev["coverage"][k] = ev["coverage"].get(k, 0) + other["coverage"].get(k, 0)
            ev["coverage"]["other_part"] = other["coverage"]
            ev["violations"] += other.get("violations", 0)
            ev["assumptions"] += other.get("assumptions", [])
            os.remove(part)
        suffix = os.environ.get("VERIF_EVIDENCE_SUFFIX", "")
        with open(os.path.join(EVIDENCE, f"{self.prop}{suffix}.json"), "w") as f:
            json.dump(ev, f, indent=1, sort_keys=True)
            f.write("\n")
        for n in self.notes:
            print(n)
        print(f"{self.prop}: tier={tier()} seed={seed()} evaluations={self.cov.get('evaluations')} "
              f"nontrivial={self.cov.get('distinct_nontrivial')} rejected={len(self.rejected)} "
              f"violations={len(viol)} wall={ev['wall_s']}s")
        first = int(os.environ.get("VERIF_FIRST_PART_RC", "0") or 0)
        sys.exit(1 if (viol or first == 1) else 0)

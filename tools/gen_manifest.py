#!/usr/bin/env python3
"""Regenerates /verif/MANIFEST.json from the table below (single source of truth)."""
import json
import os

VERIF = os.path.dirname(os.path.dirname(os.path.abspath(__file__)))

ENGINES = [
    {"name": "datalog-oracle", "path": "tools/eng_datalog.py", "serves_properties": ["C01", "C02", "C03", "C04", "C06", "C07", "C08"],
     "kind_free_text": "generated programs run on the real IQLEngine; TLC evaluates the stratified least model "
                       "(spec/Datalog.tla) on the same JSON and judges every recorded run (spec/EngineTrace.tla)"},
]

TB = "Trusted: TLC/SANY, the harness's value/program projection (harness/src/val.rs, prog.rs printers)."

# id -> (engine, technique, level category, level text, level note, design ref)
CHECKS = {
    "C01": ("datalog-oracle", "TLA+ trace validation: TLC computes the perfect model of each generated program and compares",
            "model_checking",
            "Every generated stratified program/EDB is executed by the real engine (default and all-off optimizer settings) and "
            "the recorded answer must equal Datalog!Answer as evaluated by TLC on the same abstract syntax. Sound for each "
            "explored case; coverage is seeded-random over the fragment, not exhaustive.",
            "Integers and a 3-letter string alphabet only; arithmetic results stay in 32 bit. " + TB, "7 C01"),
    "C02": ("datalog-oracle", "TLA+ trace validation, relational acceptance over all 32 optimizer settings",
            "model_checking",
            "For each generated case the real engine is run under all 32 switch combinations; EngineTrace accepts iff all "
            "32 results are equal as sets (and equally Ok/Err). The least model is used only to count non-trivial cases.",
            TB, "7 C02"),
    "C03": ("datalog-oracle", "TLA+ trace validation, relational acceptance over worker counts {1,2,3,4,8}",
            "model_checking",
            "Each case (generator biased to aggregate heads, computed columns, join-free bodies) is run with 1,2,3,4,8 workers; "
            "accepted iff every result equals the single-worker result.",
            TB, "7 C03"),
    "C04": ("datalog-oracle", "TLA+ trace validation, relational acceptance over clause orders / duplicated clauses / reused engines",
            "model_checking",
            "Each case is re-run under up to 5 clause permutations (query clause last), with one clause duplicated, and twice on an "
            "engine that executed other programs before; accepted iff all answers agree and the stored base facts of every "
            "EDB relation are unchanged after every execution. The oracle's own order independence (and that its model is a "
            "supported model, monotone without negation) is model-checked exhaustively over 51072 (program, database) pairs "
            "(MC_Datalog.tla) in the same check.",
            "Only relations that existed before the execution are compared for 'base facts unchanged'. " + TB, "7 C04"),
    "C05": ("plan", "plan trees before / after every real rewrite pass evaluated by TLC with Plan.tla (Eval) and compared with each "
            "other and with the real executor (PlanTrace.tla)",
            "model_checking",
            "Plan.tla is a denotational semantics of the IR (Scan, Map, Filter, Join, Antijoin, Distinct, Union, Compute, Aggregate, "
            "FlatMap, JoinFlatMap; every predicate form; the executor's join row layout). Seeded random well-formed trees of depth <= 4 "
            "over 6 typed relations and the trees the real IRBuilder produces for generated rules go through JoinPlanner::plan_joins, "
            "BooleanSpecializer::specialize, Optimizer::optimize and all three in pipeline order; trees before and after are "
            "serialized and executed by the real CodeGenerator on a random database. A record is judged iff exec(before) = "
            "Eval(before) (on this tree: all of them); accepted iff for every pass the pass did not panic, Eval(after) = Eval(before) "
            "and exec(after) = Eval(before).",
            "Set semantics (aggregates only over a Distinct input), integer arithmetic + - *, floats / strings only compared; random "
            "trees use each right column as a join key at most once (what the IR builder produces). Subplan sharing and SIP are not "
            "plan-to-plan rewrites of one tree and are covered by C02 instead. " + TB, "7 C05"),
    "C06": ("datalog-oracle", "TLA+ trace validation: aggregate semantics of Datalog.tla under all 32 settings",
            "model_checking",
            "Aggregate query heads (count, sum, min, max, avg, count_distinct; 0-2 group keys; joins that multiply bindings, "
            "filters, wildcards) are judged against Datalog!DeriveAgg for every optimizer setting. A wildcard may be read as "
            "its own variable or as projected away (both accepted); avg is compared through |f*n - 1000*sum| <= n.",
            "avg accuracy ~1e-3 (TLC has no reals). " + TB, "7 C06"),
    "C07": ("datalog-oracle", "TLA+ trace validation: WellFormedQ on every recorded run",
            "model_checking",
            "Every successful run of every case (all settings, workers, limits, orders) must be duplicate-free, have the head's "
            "arity and reproduce the head constants of one of the query relation's clauses.",
            "Recursive min/max heads are not generated yet (the engine's recursive aggregation is outside the model). " + TB, "7 C07"),
    "C08": ("datalog-oracle", "TLA+ trace validation: TruncationOK against the same build's unlimited answer",
            "model_checking",
            "Each case is run with limits {1,2,3,5,|A|,|A|+1} under default and all-off settings; a successful limited run must be "
            "a duplicate-free subset of the unlimited answer of the same settings with exactly min(N,|A|) rows.",
            TB, "7 C08"),
    "C09": ("rules", "trace validation of generated rules (print / re-parse, four submission modes) against RuleTrace.tla, with "
            "Datalog!Answer as the oracle for rules inside the fragment of Datalog.tla",
            "model_checking",
            "Seeded rules over the rule grammar (constants of every kind in heads, comparisons and body atoms incl. integral floats, "
            "exponents, strings with separators, booleans, vectors; integer / float / mixed arithmetic with random parentheses; 21 "
            "function forms; 6 aggregates; negation; two-clause rules). For every rule the parser accepts the real parser + Display are "
            "run (syntax trees before and after must be equal) and ?head(..) is answered with the rule inline, as a session rule, as a "
            "persistent rule and after a restart, each on its own graph with the same facts; RuleTrace accepts iff the round trip is "
            "exact, the four outcomes and row sets (exact tokens: kind and bit pattern) agree, and - for rules inside the integer "
            "fragment - the rows equal Datalog!Answer.",
            "The TLA+ part is thin here by nature of the property (print/parse fidelity): the specification compares opaque syntax-tree "
            "tokens and answer sets, and is an absolute oracle only for the integer fragment (about 40% of the cases). Rule forms the "
            "engine refuses in every mode alike are not judged. " + TB, "7 C09"),
    "C10": ("session", "TLC-enumerated request interleavings of session scripts (MC_Session.tla, isolation statements model-checked) "
            "submitted to the real Handler; every observed step judged by SessionTrace.tla against Session.tla / Datalog!Answer",
            "model_checking",
            "Session.tla: persistent facts/rules plus per-session ephemeral facts/rules; one request = one action; a session query is "
            "answered by Datalog!Answer over persistent data + that session's own facts and rules. MC_Session enumerates every "
            "interleaving of three script sets (negation over own facts vs a writer; a session rule sharing a persistent rule's head, "
            "retraction, request-local program; recursion with three sessions) and checks KeepsPersistent / KeepsOtherAnswers / "
            "LocalLeavesNothing in every state. Each interleaving (quick: seeded sample of 120 per set) plus 500 (thorough 8000) random "
            "scripts run on a real Handler; after every request the whole observed state (persistent facts, number of persistent "
            "clauses, every session's ephemeral facts and number of rules) must equal the specification state and every query's rows "
            "must equal Session!Ans.",
            "Interleaving granularity is the whole request (one client thread drives the Handler): races inside a request between "
            "threads of different sessions are not explored. Integers only. " + TB, "7 C10"),
    "C11": ("store-replay", "TLC-enumerated histories (MC_Store) replayed on the real StorageEngine; every step judged by StoreTrace.tla",
            "model_checking",
            "TLC enumerates every history of length 4 (thorough: 5) over {ins t1, ins t2, ins [t1,t1], ins [t1,t2], del t1, del t2, "
            "save, compact, restart, restart without save} and model-checks the abstract machine's laws; each history is replayed on a "
            "fresh real engine (buffer sizes 1, 2, 10000) and StoreTrace accepts a restart step iff the observed state equals the "
            "state observed before it. Plus seeded random histories of length 4-14 over 2 relations.",
            "Sequential client; clean shutdown = save_all + drop (drop alone in immediate mode). " + TB, "7 C11"),
    "C12": ("store-replay", "value-domain pair enumeration + random value histories replayed on the real engine, judged by StoreTrace.tla "
            "with values as opaque tokens",
            "model_checking",
            "Values are opaque tagged tokens (bit patterns for floats) on which the specification only uses equality. Every ordered "
            "pair of representative values (thorough: of the full 47-value domain) in one column x {WAL only, flushed, compacted} "
            "plus random mixed-kind histories; a restart step is accepted iff the recovered relation equals the one served before "
            "and the store reopened.",
            "Encode/decode fidelity is judged by token equality only (the specification cannot explain a changed token). " + TB, "7 C12"),
    "C14": ("store-replay", "TLC-enumerated histories x 24 persistence configurations replayed on the real engine, judged by StoreTrace.tla",
            "model_checking",
            "Every history of length 3 (thorough: 4) of MC_Store under buffer_size {1,2,3,10000} x max_wal_size {0,200} x durability "
            "{immediate,batched,async}, plus random histories: save/compact steps must leave the observed state unchanged and every "
            "clean restart after a maintenance step must reproduce it.",
            "Clean shutdown only (save_all before drop in batched/async mode). " + TB, "7 C14"),
    "C17": ("store-replay", "TLC-enumerated multi-graph histories replayed on the real engine, judged by StoreTrace.tla "
            "(sequential part of the property)",
            "model_checking",
            "Every history of length 4 (thorough: 5) over two graphs {ins g, ins h, del h, create h, drop h, rule g, rule h, restart}: "
            "a refused operation changes nothing, an operation on one graph leaves the other's facts/rules/schemas alone (Isolated), "
            "a dropped graph is gone after the drop and after every later restart, a re-created graph starts empty. MC_Store checks "
            "DropFinal and KGIsolation on the abstract machine.",
            "Concurrent part (engine sched, run first by bin/check C17): every interleaving, at the cfg-guarded scheduling points, of "
            "an insert into h with drop h + create h (TLC-enumerated by MC_Sched_D) is forced on real threads; SchedTrace accepts iff "
            "after the acknowledged drop none of the old incarnation's tuples is served or recovered and graph g is untouched; "
            "KgLife.tla (the insert / drop / re-create protocol) is model-checked (the pinned variant is an expected violation) and "
            "every run's log is validated as a behaviour of it (KgLifeTrace.tla: recovered and served tuples must be KgLife's). "
            "Interleaving granularity = the scheduling points. " + TB, "7 C17"),
    "C15": ("sched", "TLC-enumerated thread interleavings (MC_Sched.tla) forced on real threads at cfg-guarded scheduling points; "
            "crash images reopened by real recovery; judged by SchedTrace.tla against Store.tla",
            "model_checking",
            "Workloads: two writers + a flusher on one shard, insert racing delete of one tuple, two writers with buffer_size 1 "
            "(flush inside append), insert racing drop + re-create. MC_Sched enumerates every interleaving of the threads over the "
            "scheduling points (after logical time, after WAL append, after buffer insertion, after persist, flush/compact start); "
            "all of them, or a seeded sample of the tier's budget, are forced on real threads by the harness controller. Accepted iff "
            "the served state is the result of a serial order of the acknowledged operations consistent with the call/return order "
            "(Serializable), every crash image (copy of the data directory while all threads are parked: end of run + 2 random steps, "
            "thorough: every step) reopens to a state containing every operation acknowledged before it under some serial order of "
            "acknowledged + in-flight operations (Durable), and the final image recovers exactly the served state. In addition "
            "Persist.tla (the write-ahead protocol, one action per critical section) is model-checked (Durable holds; the pinned "
            "two-critical-section variant is an expected violation) and the scheduling-point log of every insert-only run is "
            "validated as a behaviour of it (PersistTrace.tla): each image's real recovery must equal Persist!Recovered.",
            "Interleavings at the granularity of the scheduling points only (not every instruction); crash images are plain copies "
            "(no torn-write model here; that is C13). 2-3 threads, one operation each (two for the dropper). " + TB, "7 C15"),
    "C18": ("incr", "TLC-enumerated histories (MC_Incr.tla, laws of Incr.tla model-checked) run twice on the real Handler (incremental "
            "maintenance switched on / never); every step judged by IncrTrace.tla against Incr!Apply18 and Datalog!Answer",
            "model_checking",
            "Incr.tla: base facts, rules as name -> ordered clause texts (register / remove clause i / drop), a flag 'incremental on' that "
            "Ans18 (Datalog!Answer of current rules over current facts) does not read. MC_Incr enumerates every history of length 3 "
            "(thorough 4) over {ins/del r(1), ins r(2), d<-r, d<-s, c<-d, n<-s,!d, remove d 1, drop d, enable, restart}; these plus seeded "
            "random histories (10-clause menu: rules over derived relations two levels deep, negation on derived, recursion) run on two "
            "real Handlers; after every step every relation is queried. Accepted iff the observed facts and per-rule clause lists are "
            "the specification's in both runs and every answer of the run with incremental maintenance has the outcome and rows of the "
            "reference run; agreement with Datalog!Answer is recorded for every step where it is defined (0 disagreements on this tree).",
            "On this tree auto-materialization on rule registration always fails (its query text '?name(V0..)' is rejected as an unsafe "
            "rule), so no materialization is ever stored through the public paths and the property holds for lack of the mechanism; the "
            "check is the regression guard for the day that path is repaired. Incremental maintenance is switched on through "
            "KnowledgeGraph::enable_incremental (what index creation calls). " + TB, "7 C18"),
    "C19": ("store-replay", "random histories on the real engine with a consistent read of the incremental engine after every step "
            "(StoreTrace.tla) + TLC-enumerated reader/writer interleavings forced on real threads (SchedTrace.tla)",
            "model_checking",
            "Sequential part: random insert/delete histories (duplicates, absent deletes, two relations, save/compact/restart "
            "re-enabling) with incremental maintenance on; after every step IncrementalEngine::read_relation_consistent of each base "
            "relation must equal the relation served by the store (set equality, no duplicates). Concurrent part (engine sched, run "
            "first by bin/check C19): two writers and a reader doing two consistent reads, every interleaving at the scheduling points "
            "(MC_Sched_R, sampled to the tier's budget); each read must succeed and equal the relation after some prefix-closed set of "
            "the writes that contains every write acknowledged before the read was called.",
            "Interleaving granularity = scheduling points of the write path (the reader is atomic). " + TB, "7 C19"),
    "C20": ("sched", "TLC-enumerated writer/query interleavings (MC_Sched.tla) forced on real threads; query observations judged by "
            "SchedTrace!PrefixOK",
            "model_checking",
            "A client thread that inserts one tuple and then queries, against a writer inserting a two-tuple batch: every "
            "interleaving at the scheduling points (462 schedules, MC_Sched_Q; sampled to the budget in quick). A query observation is "
            "accepted iff it equals the relation after a set of operations that contains every operation acknowledged before the "
            "query was called (including the client's own write), contains no operation called after the query returned, and applies "
            "each batch entirely or not at all.",
            "Facts only (no rule registrations in the interleaved workload); one query relation. " + TB, "7 C20"),
    "C13": ("fs-crash", "crash images at every real syscall boundary (strace + fsreplay) judged by StoreTrace!Crash / Store!CrashOK",
            "model_checking",
            "The real engine performs seeded histories under strace (no hook in the persistence code). Every file-system mutation "
            "is a crash point under loss models M0 (nothing lost), M1 (last write torn), M2 (un-fsynced file data lost); each image "
            "is reopened by the real recovery code and accepted iff the store reopens and serves the state after some prefix of the "
            "attempted operations containing every acknowledged one.",
            "Directory-entry loss (renames without directory fsync) and crashes during recovery itself are not enumerated yet; "
            "trusted: strace, tools/fsreplay.py POSIX model. " + TB, "7 C13"),
    "C16": ("fs-crash", "same crash-image enumeration over histories of rule / schema catalog updates, judged by Store!CrashOK",
            "model_checking",
            "Histories of rule register/drop and schema register/remove interleaved with fact writes; every file-system mutation "
            "(including torn catalog writes, M1, and un-synced catalog content, M2) is a crash point; accepted iff the graph opens and "
            "rules/schemas are those after a prefix of the attempted operations containing every acknowledged one.",
            "trusted: strace, tools/fsreplay.py. " + TB, "7 C16"),
    "C21": ("proof", "trace validation of returned proof DAGs against ProofTrace!ValidNode over Datalog!Model",
            "model_checking",
            "Generated stratified programs (no aggregates) are registered as persistent rules in a real Handler; .why is asked for up to "
            "5 answer tuples per program; TLC computes the least model and accepts a proof iff the root concludes the tuple, every rule "
            "node instantiates some clause with a satisfying valuation whose positive body instances are the children's conclusions in "
            "order, every fact leaf is in the model (edb leaves in the base facts) and every negation leaf's instance is absent.",
            "Integers only; the logged rule_id text is not trusted (TLC searches clause and valuation itself). " + TB, "7 C21"),
    "C22": ("proof", "trace validation: ProofTrace!Complete for every answer tuple in the model",
            "model_checking",
            "Same records as C21: every answer tuple that is in the least model must get a proof whose reachable nodes contain no "
            "'truncated' node and no bare 'derived' fact leaf (derivation depths of the generated programs are far below the limit).",
            TB, "7 C22"),
    "C23": ("proof", "trace validation of .why_not answers against ProofTrace!WhyNotOK over Datalog!Model",
            "model_checking",
            ".why_not for random candidate tuples and for answer tuples: for an underived tuple there is one entry per clause and every "
            "body-atom / head-unification blocker genuinely holds in the model; for a derived tuple the answer never claims that every "
            "clause is blocked.",
            "Comparison and negation blockers are not re-evaluated (their text is not parsed); entries are matched to clauses "
            "existentially. " + TB, "7 C23"),
    "C24": ("laws", "trace validation of search results against VecIndexTrace.tla (abstract index kept by the specification)",
            "model_checking",
            "Random histories (insert, update, delete, rebuild, save/load, search with k and ef variations) on a real HnswIndex, all four "
            "metrics, integer coordinates: ids distinct and live, at most k, distances non-decreasing and equal to the metric's (integer "
            "inequalities at scale 100), and when |live| <= ef exactly min(k, live) results none of which is beaten by a left-out id.",
            "Distances agree to ~1e-2 (TLC has no reals); dot-product values only ordered. " + TB, "7 C24"),
    "C25": ("laws", "trace validation of index state observables against VecIndexTrace.tla",
            "model_checking",
            "After every call of the same histories: len - tombstones = number of live ids, dimension = vector length, metric and "
            "parameters unchanged, save + load succeeds and preserves all of it; membership is exercised through C24's complete searches.",
            TB, "7 C25"),
    "C26": ("laws", "trace validation against LawsTrace.tla (Lsh memo machine, probe and distance/quantisation laws)",
            "model_checking",
            "LSH buckets must be a function of (vector, table, hyperplanes) across cache clear/resize/prewarm/eviction and across three "
            "concurrent callers racing a cache-clearing thread; probe sequences start at the bucket, are distinct, within n bits, "
            "Hamming-monotone; distances symmetric (bit-identical), non-negative, zero on identical inputs, cosine within [0,2]; int8 "
            "quantisation within one step (integer inequalities).",
            "Concurrent schedules are whatever the OS produces (no forced schedules); float accuracy judged by classes. " + TB, "7 C26"),
    "C27": ("handler-trace", "effect-based trace validation of authorization against Auth.tla (HandlerTrace!Unauthorized / Leaked)",
            "model_checking",
            "Seeded multi-statement programs (about 50 statement templates, comments, continuation lines, .kg use/create/drop, "
            "session- or graph-bound) by a non-admin identity with every combination of graph roles; the whole system state is "
            "recorded after each request; accepted iff every graph whose facts/rules/schemas changed was writable by the caller "
            "(Auth!CanWrite / CanDrop / CanCreate) and no returned row carries a marker value of a graph the caller cannot read.",
            "Write permission = role on the graph >= editor (the global role gates system-level operations only): the weaker reading "
            "of the statement, the one the code documents. " + TB, "7 C27"),
    "C28": ("handler-trace", "TLC evaluates the lattice laws (MatrixTrace.tla) on the real decision matrix, exhaustive",
            "model_checking",
            "Every Statement/MetaCommand variant (exhaustive match: a new variant is a build error) x 3 global x 3 graph roles through "
            "the real authorize_statement / authorize_kg_operation; TLC checks monotonicity per layer, viewer read-only (graph "
            "viewers never permit graph-changing kinds, global viewers never system-changing kinds, viewer+viewer nothing mutating) "
            "and admin-only user/api-key/compaction management.",
            "Classification of kinds is the specification's own. " + TB, "7 C28"),
    "C29": ("handler-trace", "effect-based trace validation: HandlerTrace!InternalChangeOK, leak and session-binding checks",
            "model_checking",
            "C27's generator with the internal graph named in every position (target graph, .kg use/create/drop, rules and queries "
            "over users/kg_acls, session re-binding); accepted iff the internal graph is unchanged except for access-control entries of "
            "graphs the caller owns, no secret marker is returned, no switch to it is acknowledged and no session ends up bound to it.",
            TB, "7 C29"),
    "C30": ("handler-trace", "trace validation of program atomicity against Store!ApplySeq",
            "model_checking",
            "Programs of 1-5 insert/bulk-insert/delete statements with one of 12 malformed statements injected at a random position: "
            "if any statement is rejected by the system's own statement parser the request must fail and the persistent state must be "
            "unchanged; a program of known statements must have exactly the effect of its statements in order.",
            "'fails to parse' is relative to the system's statement parser (recorded per statement). " + TB, "7 C30"),
    "C31": ("laws", "TLC evaluates the total-order laws (ValuesTrace.tla) on the real cmp/eq/hash matrices, exhaustive over the domain",
            "model_checking",
            "All pairs and triples of a 52-value domain of every kind (0.0, -0.0, three NaNs, infinities, both integer widths, "
            "independently built equal values, vectors) and of 72 tuples: reflexive, antisymmetric, transitive, cmp = Equal iff eq, "
            "eq implies equal hash.",
            "Finite representative domain. " + TB, "7 C31"),
    "C32": ("handler-trace", "trace validation of write statements against the set model (Store!Apply, Store!Reported)",
            "model_checking",
            "Programs of inserts, bulk inserts with in-batch duplicates, single/bulk deletes, conditional deletes and updates (equality "
            "/ inequality conditions) through the real handler; accepted iff relations stay duplicate-free, the state is the set "
            "model's and every acknowledgement carries the set model's count (new / deleted / matched).",
            "Conditions are equalities and inequalities on one column (tokens, no arithmetic order in the store specification). " + TB,
            "7 C32"),
    "C33": ("handler-trace", "trace validation of schema enforcement (HandlerTrace!MustAcceptT / MustRejectT)",
            "model_checking",
            "Random schemas over int/string/float/bool and random batches (exact kinds, wrong kinds, wrong arities, mixed batches): a "
            "batch with a must-reject tuple leaves the relation unchanged, a batch of must-accept tuples is applied, no stored tuple "
            "is must-reject; data-before-schema histories included.",
            "Documented coercions (int into float, ...) are a don't-care zone. " + TB, "7 C33"),
    "C34": ("handler-trace", "trace validation against Datalog!NegStratified of the combined persistent + session rule set",
            "model_checking",
            "Random rule sets over 2-4 unary predicates with random signs, split arbitrarily between persistent registrations and "
            "request-local session rules, then a query: a set with recursion through negation must not be answered, a stratified set "
            "must be accepted completely and answered.",
            TB, "7 C34"),
    "C35": ("handler-trace", "trace validation against Page!IsSortedSlice relative to the same engine's unsorted answer",
            "model_checking",
            "Relations of 2-6 tuples mixing int widths, floats (NaN, inf, -0.0), strings and nulls; random sort annotations, limits "
            "and offsets around the boundaries; accepted iff the call succeeds, total = full answer size and the rows are a slice of "
            "an ordering of the full answer that respects every comparable pair (ties and cross-kind pairs free).",
            "String order supplied as ranks of a 4-string alphabet (TLC has no string order). " + TB, "7 C35"),
    "C36": ("laws", "trace validation of bloom filter / hash index histories against IndexTrace.tla",
            "model_checking",
            "Random histories on real BloomFilter (all sizes incl. 0 bits / 0 hashes requested) and HashIndex (insert, remove, rebuild, "
            "get / get_with_bloom / probe / might_contain_key) with keys of every value kind; the specification keeps the abstract "
            "content and accepts a lookup iff it returns exactly the stored tuples with that key and never a false negative.",
            "BloomFilter::new is called within its documented preconditions. " + TB, "7 C36"),
}

ENGINES.append({"name": "fs-crash", "path": "tools/eng_crash.py", "serves_properties": ["C13", "C16"],
                "kind_free_text": "strace of the real engine + tools/fsreplay.py crash images + real recovery, judged by StoreTrace!Crash"})
ENGINES.append({"name": "handler-trace", "path": "tools/eng_handler.py",
                "serves_properties": ["C27", "C28", "C29", "C30", "C32", "C33", "C34", "C35"],
                "kind_free_text": "scenarios through the real protocol Handler; whole-system state after each request judged by "
                                  "spec/HandlerTrace.tla (Auth, Store, Page, Datalog) and spec/MatrixTrace.tla"})
ENGINES.append({"name": "laws", "path": "tools/eng_laws.py", "serves_properties": ["C24", "C25", "C26", "C31", "C36"],
                "kind_free_text": "real comparison matrices / index and vector-op histories judged by spec/ValuesTrace.tla, "
                                  "IndexTrace.tla, VecIndexTrace.tla, LawsTrace.tla"})
ENGINES.append({"name": "proof", "path": "tools/eng_proof.py", "serves_properties": ["C21", "C22", "C23"],
                "kind_free_text": ".why / .why_not answers of the real Handler judged by spec/ProofTrace.tla over Datalog!Model"})
ENGINES.append({"name": "plan", "path": "tools/eng_plan.py", "serves_properties": ["C05"],
                "kind_free_text": "IR plan trees before/after the real rewrite passes, serialized by the harness; spec/Plan.tla gives them a "
                                  "denotation, spec/PlanTrace.tla compares Eval(before), Eval(after) and the real executor's results"})
ENGINES.append({"name": "rules", "path": "tools/eng_rules.py", "serves_properties": ["C09"],
                "kind_free_text": "generated rules through the real parser / Display and the four submission modes of the real Handler; "
                                  "spec/RuleTrace.tla judges round trip, agreement of the modes and Datalog!Answer"})
ENGINES.append({"name": "incr", "path": "tools/eng_incr.py", "serves_properties": ["C18"],
                "kind_free_text": "spec/MC_Incr.tla enumerates histories of fact writes / rule registration, removal, drop / incremental on; "
                                  "each runs twice on the real Handler; spec/IncrTrace.tla judges state and answers against Incr.tla"})
ENGINES.append({"name": "session", "path": "tools/eng_session.py", "serves_properties": ["C10"],
                "kind_free_text": "spec/MC_Session.tla enumerates request interleavings of session scripts; the harness submits "
                                  "them to the real Handler; spec/SessionTrace.tla judges state and answers against Session.tla"})
ENGINES.append({"name": "sched", "path": "tools/eng_sched.py", "serves_properties": ["C15", "C17", "C19", "C20"],
                "kind_free_text": "spec/MC_Sched.tla enumerates thread interleavings over the cfg-guarded scheduling points; the harness "
                                  "controller forces each on real threads and takes crash images; spec/SchedTrace.tla judges "
                                  "serializability, durability and read prefixes against Store.tla"})
ENGINES.append({"name": "store-replay", "path": "tools/eng_store.py", "serves_properties": ["C11", "C12", "C14", "C17", "C19"],
                "kind_free_text": "spec/MC_Store.tla enumerates histories of the abstract store machine; harness replays them on the "
                                  "real StorageEngine; spec/StoreTrace.tla judges every observed step (Store!StepOK)"})

ALL = ["C%02d" % i for i in range(1, 37)]


def main():
    checks = []
    for pid in ALL:
        if pid not in CHECKS:
            continue
        eng, tech, cat, text, note, ref = CHECKS[pid]
        checks.append({
            "property_id": pid,
            "quick_cmd": f"bin/check {pid} --tier quick",
            "thorough_cmd": f"bin/check {pid} --tier thorough",
            "evidence_file": f"evidence/{pid}.json",
            "replay_cmd_template": f"bin/check {pid} --replay {{path}}",
            "engine": eng,
            "technique": tech,
            "level_claimed": {"category": cat, "text": text, "design_ref": "DESIGN.md section " + ref},
            "level_note": note,
        })
    na = [{"property_id": p, "reason": "check not built yet in this tree (construction order in DESIGN.md section 10); "
                                       "nothing is claimed for it"} for p in ALL if p not in CHECKS]
    m = {
        "version": 1,
        "setup_cmd": "bin/setup",
        "hooks": {
            "guard": "--cfg inputlayer_verif",
            "enable": "harness/.cargo/config.toml passes --cfg inputlayer_verif to every crate of the harness build "
                      "(path dependency on /repo)",
            "baseline_off_cmd": "cd /repo && cargo nextest run --workspace --no-fail-fast --offline --test-threads 8",
            "source_commits": ["363bcfa", "225a747"],
            "add_only": True,
        },
        "engines": ENGINES,
        "checks": checks,
        "not_applicable": na,
        "notes": "All checks: exit 0 / exit 1 with 'VIOLATION property=<id> replay=<path>' / exit 2 with 'TOOL-ERROR'. "
                 "Known findings are listed in known_findings.json and printed as KNOWN-FINDING lines. "
                 "VERIF_SEED, VERIF_TIER honoured.",
    }
    with open(os.path.join(VERIF, "MANIFEST.json"), "w") as f:
        json.dump(m, f, indent=1)
        f.write("\n")


if __name__ == "__main__":
    main()

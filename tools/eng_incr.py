"""Engine `incr`: C18 (materialization and incremental maintenance are invisible).

spec -> impl: spec/MC_Incr.tla enumerates every history of length N over an
alphabet of fact writes, rule registrations (derived-on-derived, second
clauses), clause removal, rule drop, "incremental on" and restart, checking the
laws of spec/Incr.tla; impl -> spec: seeded random longer histories over a
larger rule menu.  Every history runs twice on a real Handler (`ilv
drive-handler`): with the switch, and with the switch replaced by a query.
After every step every relation is queried.  spec/IncrTrace.tla judges each
step: state = Incr!Apply18, answers of the judged run = answers of the
reference run (and Datalog!Answer where the reference run agrees with it).
"""
import json
import os
import random
import sys

import vlib

KG = "g"
VARS = ["X", "Y", "Z"]


def V(n):
    return {"t": "v", "n": n}


def mk_rule(head, hargs, body):
    pretty = f"{head}({', '.join(hargs)}) <- " + ", ".join(("!" if k == "neg" else "") + f"{r}({', '.join(a)})" for k, r, a in body)
    ast = {"h": {"r": head, "a": [V(a) for a in hargs]},
           "b": [{"k": k, "r": r, "a": [V(x) for x in a]} for k, r, a in body]}
    return {"k": "prule", "name": head, "text": "".join(pretty.split()), "pretty": pretty, "ast": ast}


MENU = [
    mk_rule("d", ["X"], [("pos", "r", ["X"])]),
    mk_rule("d", ["X"], [("pos", "s", ["X"])]),
    mk_rule("c", ["X"], [("pos", "d", ["X"])]),
    mk_rule("n", ["X"], [("pos", "s", ["X"]), ("neg", "d", ["X"])]),
    mk_rule("b", ["X"], [("pos", "d", ["X"]), ("pos", "s", ["X"])]),
    mk_rule("m", ["X"], [("pos", "c", ["X"]), ("neg", "n", ["X"])]),
    mk_rule("t", ["X", "Y"], [("pos", "e", ["X", "Y"])]),
    mk_rule("t", ["X", "Z"], [("pos", "t", ["X", "Y"]), ("pos", "e", ["Y", "Z"])]),
    mk_rule("u", ["X"], [("pos", "t", ["X", "X"])]),
    mk_rule("w", ["X"], [("pos", "u", ["X"]), ("pos", "d", ["X"])]),
]
ARITY = {"r": 1, "s": 1, "e": 2, "d": 1, "c": 1, "n": 1, "b": 1, "m": 1, "t": 2, "u": 1, "w": 1}
PRETTY = {m["text"]: m["pretty"] for m in MENU}
PRETTY.update({"d(X)<-r(X)": "d(X) <- r(X)", "d(X)<-s(X)": "d(X) <- s(X)", "c(X)<-d(X)": "c(X) <- d(X)",
               "n(X)<-s(X),!d(X)": "n(X) <- s(X), !d(X)"})


def rand_fact(rng):
    rel = rng.choice(["r", "r", "s", "e", "e"])
    return rel, [["i", rng.randint(1, 3)] for _ in range(ARITY[rel])]


def gen_random(rng):
    pre = []
    for _ in range(rng.randint(1, 4)):
        rel, tup = rand_fact(rng)
        pre.append({"k": "pins", "rel": rel, "tup": tup})
    ops = []
    n = rng.randint(4, 10)
    for _ in range(n):
        c = rng.random()
        if c < 0.25:
            rel, tup = rand_fact(rng)
            ops.append({"k": "pins", "rel": rel, "tup": tup})
        elif c < 0.40:
            rel, tup = rand_fact(rng)
            ops.append({"k": "pdel", "rel": rel, "tup": tup})
        elif c < 0.72:
            m = rng.choice(MENU)
            ops.append({k: m[k] for k in ("k", "name", "text", "ast")})
        elif c < 0.82:
            ops.append({"k": "rremove", "name": rng.choice(["d", "t", "c", "n"]), "idx": rng.randint(1, 2)})
        elif c < 0.90:
            ops.append({"k": "rdrop", "name": rng.choice(["d", "c", "t", "n", "u"])})
        elif c < 0.95:
            ops.append({"k": "restart"})
        else:
            ops.append({"k": "enable"})
    ops.insert(rng.randint(0, max(0, len(ops) - 2)), {"k": "enable"})
    return pre, ops


def lit(v):
    return str(v[1])


def to_step(op, asts, probe, off):
    k = op["k"]
    base = {"who": None, "c18": op, "asts": asts, "probe": probe, "probe_kg": KG}
    if k == "pins":
        return dict(base, k="req", kg=KG, text=f"+{op['rel']}({', '.join(lit(v) for v in op['tup'])})")
    if k == "pdel":
        return dict(base, k="req", kg=KG, text=f"-{op['rel']}({', '.join(lit(v) for v in op['tup'])})")
    if k == "prule":
        return dict(base, k="req", kg=KG, text="+" + PRETTY[op["text"]])
    if k == "rremove":
        return dict(base, k="req", kg=KG, text=f".rule remove {op['name']} {op['idx']}")
    if k == "rdrop":
        return dict(base, k="req", kg=KG, text=f".rule drop {op['name']}")
    if k == "enable":
        if off:
            return dict(base, k="req", kg=KG, text="?s(X)")
        return dict(base, k="enable_incr", kg=KG)
    if k == "restart":
        return dict(base, k="restart")
    raise ValueError(k)


def scenarios_of(cid, pre, ops, asts, origin):
    rels = sorted({op["ast"]["h"]["r"] for op in ops if op["k"] == "prule"} | {"r", "s"} |
                  {l["r"] for op in ops if op["k"] == "prule" for l in op["ast"]["b"]})
    probe = {q: f"?{q}({', '.join(VARS[:ARITY[q]])})" for q in rels}
    out = []
    for off in (False, True):
        steps = [to_step(op, asts, probe, off) for op in list(pre) + list(ops)]
        out.append({"case": 2 * cid - (0 if off else 1), "kind": "c18", "origin": origin, "kgs": [KG], "users": [], "acls": [],
                    "steps": steps, "npre": len(pre)})
    return out


def case_preds(sc, step, info):
    P = set()
    ops = [s["c18"] for s in sc["steps"][:step]]
    op = ops[-1]
    P.add("op." + op["k"])
    P.add("what." + str(info.get("what")))
    P.add("incr.on" if info.get("incr") else "incr.off")
    heads = set()
    rules = {}
    for o in ops:
        if o["k"] == "prule":
            rules.setdefault(o["name"], [])
            if o["text"] not in rules[o["name"]]:
                rules[o["name"]].append(o["text"])
    asts = sc["steps"][0]["asts"]
    heads = set(rules)
    for q in info.get("differ", []):
        P.add("differ.rel_" + q)
        for txt in rules.get(q, []):
            a = asts[txt]
            if any(l["r"] in heads and l["r"] != q for l in a["b"]):
                P.add("differ.rule_over_derived_relation")
            if any(l["k"] == "neg" for l in a["b"]):
                P.add("differ.rule_has_negation")
            if any(l["r"] == q for l in a["b"]):
                P.add("differ.rule_recursive")
    if any(o["k"] in ("rremove", "rdrop") for o in ops):
        P.add("hist.has_rule_removal")
    if any(o["k"] == "restart" for o in ops):
        P.add("hist.has_restart")
    en = [i for i, o in enumerate(ops) if o["k"] == "enable"]
    if en and any(o["k"] == "prule" for o in ops[en[0]:]):
        P.add("hist.rule_registered_after_enable")
    if en and any(o["k"] == "prule" for o in ops[:en[0]]):
        P.add("hist.rule_registered_before_enable")
    if en and any(o["k"] in ("pins", "pdel") for o in ops[en[0]:]):
        P.add("hist.fact_write_after_enable")
    return P


def run(prop, replay=None):
    t = vlib.tier()
    rep = vlib.Report(prop)
    wd = vlib.workdir(prop)
    vlib.build_harness()
    rng = random.Random(vlib.seed() * 130003 + 18)
    scen = []
    nhist = 0
    model = None
    if replay:
        with open(replay) as f:
            c = json.load(f)
        scen = c["scenarios"]
    else:
        model = "MC_Incr_4" if t == "thorough" else "MC_Incr_3"
        res, out, violated = vlib.tlc_model("MC_Incr", cfg_name=model, workers=8, timeout=3000)
        if violated:
            vlib.tool_error(f"Incr.tla violates its own laws in {model} (specification bug)")
        rep.add_tlc(res)
        hs = [ln for ln in res.lines if isinstance(ln, dict) and ln.get("ev") == "hist"]
        if not hs:
            vlib.tool_error(f"{model} emitted no history")
        nhist = len(hs)
        cap = int(os.environ.get("VERIF_N_MC", {"quick": 250, "thorough": 100000}[t]))
        if len(hs) > cap:
            hs = rng.sample(hs, cap)
        cid = 0
        for h in hs:
            cid += 1
            scen += scenarios_of(cid, h["pre"], h["ops"], h["asts"], model)
        asts = {m["text"]: m["ast"] for m in MENU}
        for _ in range(int(os.environ.get("VERIF_N", {"quick": 350, "thorough": 6000}[t]))):
            cid += 1
            pre, ops = gen_random(rng)
            scen += scenarios_of(cid, pre, ops, asts, "random")
    sfile = os.path.join(wd, "scen.ndjson")
    raw = os.path.join(wd, "raw.ndjson")
    trace = os.path.join(wd, "trace.ndjson")
    with open(sfile, "w") as f:
        for s in scen:
            f.write(json.dumps(s) + "\n")
    vlib.ilv(["drive-handler", "--scen", sfile, "--out", raw, "--root", os.path.join(wd, "data"), "--threads", 14],
             timeout=7200)
    # join the reference run's observations (case 2k) to the judged run's records (case 2k-1);
    # a rule command answers "Error: ..." inside an ok result: that is a refusal
    recs = {}
    order = []
    hung = []
    with open(raw) as f:
        for line in f:
            r = json.loads(line)
            if r["ev"] == "openfail":
                vlib.tool_error("fresh handler failed to open: " + r["err"])
            if r["ev"] == "hang":
                hung.append(r)
                continue
            key = (r["case"], r.get("step", 0))
            recs[key] = r
            if r["case"] % 2 == 1:
                order.append(key)
    hung_cases = {(h["case"] + 1) // 2 for h in hung}
    with open(trace, "w") as f:
        for (case, step) in order:
            r = recs[(case, step)]
            if (case + 1) // 2 in hung_cases:
                continue
            if r["ev"] == "step":
                o = recs.get((case + 1, step))
                if o is None:
                    vlib.tool_error("reference run has no record for a step of the judged run")
                if r["res"].get("ok") and any(isinstance(row[0], list) and row[0][0] == "s" and str(row[0][1]).startswith("Error")
                                              for row in r["res"].get("rows", []) if row):
                    r["res"]["ok"] = False
                r["off"] = {"probe": o["res"].get("probe", {}), "facts": o["state"]["facts"], "rules": o["state"]["rules"]}
            f.write(json.dumps(r) + "\n")
        for h in hung:
            if h["case"] % 2 == 1:
                f.write(json.dumps({"ev": "hang", "case": h["case"], "kind": "c18"}) + "\n")
    try:
        res = vlib.tlc_trace("IncrTrace", trace, shards=14, timeout=7200, unit_start='"ev":"reset"')
    except vlib.ToolError as e:
        vlib.tool_error(str(e))
    rep.add_tlc(res)
    byc = {s["case"]: s for s in scen}
    judged = 0
    nontriv = set()
    both_wrong = 0
    model_defined = 0
    rejected = {}
    for ln in res.lines:
        if not (isinstance(ln, list) and ln[0] == "VERDICT"):
            continue
        _, tag, cid, step, ok, info = ln
        if tag not in (prop, "HANG"):
            continue
        judged += 1
        if isinstance(info, dict):
            if info.get("incr") and info.get("nonempty", 0) > 0:
                nontriv.add((cid, step))
            if info.get("model_defined"):
                model_defined += 1
            if info.get("off_vs_model"):
                both_wrong += 1
        if not ok and cid not in rejected:
            sc = byc[cid]
            preds = {"obs.hang"} if tag == "HANG" else case_preds(sc, step, info)
            r = recs.get((cid, step))
            rejected[cid] = ({"scenarios": [sc, byc[cid + 1]], "failing_step": step,
                              "requests": [s.get("text") or s["k"] for s in sc["steps"][:step]],
                              "probe": (r["res"].get("probe") if r else None),
                              "reference_probe": (r["off"]["probe"] if r and "off" in r else None)}, info, preds)
    for cid, (case, info, preds) in sorted(rejected.items()):
        rep.reject(case, info, preds)
    if not nontriv:
        vlib.tool_error("no step with incremental maintenance on and a non-empty answer was judged (vacuous run)")
    rep.cov.update({
        "evaluations": judged,
        "histories": len(scen) // 2,
        "exhaustive_histories": nhist,
        "model": model,
        "steps_where_model_defined": model_defined,
        "steps_where_reference_run_differs_from_model": both_wrong,
        "distinct_nontrivial": len(nontriv),
        "rule": "every history of length 3 (thorough: 4) over MC_Incr's alphabet that switches incremental maintenance on and "
                "registers a rule, plus seeded random histories of 4-10 operations over facts r/1, s/1, e/2 (values 1..3) and a menu "
                "of 10 clauses (second clauses, rules over derived relations two levels deep, negation on derived relations, "
                "recursion), clause removal, rule drop, restart; each history runs twice (with / without the switch) and every "
                "relation is queried after every step. Non-trivial = a judged step after the switch with a non-empty answer",
        "traces_validated_against_impl": len(scen),
        "samples": [{"origin": s["origin"], "requests": [x.get("text") or x["k"] for x in s["steps"]]} for s in scen[:2]],
    })
    rep.assumptions += ["incremental maintenance is switched on by KnowledgeGraph::enable_incremental (what index creation calls)",
                        "'fresh evaluation' = the same build's answer on a Handler that never switched incremental maintenance on, "
                        "cross-checked against Datalog!Answer",
                        "a rule command that answers 'Error: ...' inside an ok result counts as refused"]
    rep.finish()


if __name__ == "__main__":
    run(sys.argv[1], sys.argv[sys.argv.index("--replay") + 1] if "--replay" in sys.argv else None)

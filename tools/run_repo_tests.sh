#!/bin/bash
# Runs the repository's pinned suite (guard off) and prints summary + failures only.
cd /repo && cargo nextest run --workspace --no-fail-fast --offline --test-threads 8 2>&1 | grep -E "^\s+(Summary|FAIL|SIGABRT|TIMEOUT)|^error: test run failed|could not compile|^error(\[|:)" | sort | uniq | head -40

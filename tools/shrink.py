#!/usr/bin/env python3
"""shrink.py <prop> <replay.json> : greedy minimisation of a rejected engine
case.  Every candidate is re-run on the real engine and re-judged by TLC; a
candidate is kept when it is still safe + stratified (per the specification)
and still rejected for <prop>.  Prints the minimal case."""
import copy
import json
import os
import sys

sys.path.insert(0, os.path.dirname(os.path.abspath(__file__)))
import vlib  # noqa: E402
import eng_datalog  # noqa: E402


def heads_ok(c):
    return bool(c["prog"]) and c["prog"][-1]["h"]["r"] == c["q"]


def text_of(c):
    def term(t):
        if t["t"] == "v":
            return t["n"]
        if t["t"] == "c":
            return str(t["c"][1]) if t["c"][0] == "i" else '"%s"' % t["c"][1]
        if t["t"] == "_":
            return "_"
        return "%s<%s>" % (t["f"], t["n"])

    def expr(e):
        if e["t"] == "bin":
            return "%s %s %s" % (expr(e["l"]), e["op"], expr(e["r"]))
        return term(e)

    def lit(l):
        if l["k"] == "pos":
            return "%s(%s)" % (l["r"], ", ".join(map(term, l["a"])))
        if l["k"] == "neg":
            return "!%s(%s)" % (l["r"], ", ".join(map(term, l["a"])))
        if l["k"] == "cmp":
            return "%s %s %s" % (expr(l["l"]), l["op"], expr(l["r"]))
        return "%s = %s" % (l["v"], expr(l["e"]))
    return "\n".join("%s(%s) <- %s" % (cl["h"]["r"], ", ".join(map(term, cl["h"]["a"])),
                                         ", ".join(map(lit, cl["b"]))) for cl in c["prog"])


def candidates(c):
    out = []
    for i in range(len(c["prog"])):
        d = copy.deepcopy(c)
        del d["prog"][i]
        if d["prog"] and heads_ok(d):
            out.append(d)
    for i, cl in enumerate(c["prog"]):
        for j in range(len(cl["b"])):
            if len(cl["b"]) > 1:
                d = copy.deepcopy(c)
                del d["prog"][i]["b"][j]
                out.append(d)
    for r, ts in c["edb"].items():
        for k in range(len(ts)):
            d = copy.deepcopy(c)
            del d["edb"][r][k]
            out.append(d)
    return out


def judge(prop, cands, wd):
    inp = os.path.join(wd, "cands.ndjson")
    out = os.path.join(wd, "cands_out.ndjson")
    with open(inp, "w") as f:
        for k, d in enumerate(cands):
            d = dict(d)
            d["case"] = k + 1
            f.write(json.dumps(d) + "\n")
    vlib.ilv(["replay-engine", "--in", inp, "--out", out])
    res = vlib.tlc_trace("EngineTrace", out, shards=min(8, max(1, len(cands) // 4)))
    okcase = {}
    bad = {}
    for ln in res.lines:
        if ln[0] == "CASE":
            okcase[ln[1]] = ln[3] and ln[4]
        if ln[0] == "VERDICT" and ln[1] == prop and not ln[3]:
            bad[ln[2]] = ln[4]
    recs = {}
    with open(out) as f:
        for line in f:
            r = json.loads(line)
            recs[r["case"]] = r
    return [(recs[k], bad[k]) for k in sorted(bad) if okcase.get(k)]


def shrink(prop, case, verbose=True):
    wd = vlib.workdir("shrink_%s_%d" % (prop, os.getpid()))
    for k in ("_verdict", "_preds", "_property"):
        case.pop(k, None)
    cur = case
    info = None
    while True:
        cands = candidates(cur)
        if not cands:
            break
        good = judge(prop, cands, wd)
        if not good:
            break
        # prefer the candidate with the fewest clauses/literals/tuples
        def size(r):
            return (len(r["prog"]), sum(len(cl["b"]) for cl in r["prog"]), sum(len(t) for t in r["edb"].values()))
        good.sort(key=lambda x: size(x[0]))
        cur, info = good[0]
        if verbose:
            print("  ..", size(cur), file=sys.stderr)
    return cur, info


if __name__ == "__main__":
    prop = sys.argv[1]
    for path in sys.argv[2:]:
        with open(path) as f:
            case = json.load(f)
        cur, info = shrink(prop, case)
        print("=== minimal for", path)
        print(text_of(cur))
        print({k: [[x[1] for x in t] for t in v] for k, v in cur["edb"].items()})
        print("verdict:", json.dumps(info)[:600])
        byres = {}
        for run in cur.get("runs", []):
            c = run["cfg"]
            key = json.dumps([[x[1] for x in t] for t in run["res"]["rows"]]) if run["res"]["ok"] else str(run["res"])
            byres.setdefault(key, []).append(run["tag"] + ":" + "".join(str(c[k]) for k in ("jp", "sip", "ss", "bs", "ms"))
                                             + "/w%d/l%d" % (c["workers"], c["limit"]))
        for k, v in byres.items():
            print("  ", k[:200], "<=", " ".join(v)[:300])
        print("preds:", sorted(eng_datalog.preds_of(cur)))

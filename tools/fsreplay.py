"""fsreplay: rebuild a data directory as it was at every syscall boundary of a
process traced with

  strace -f -y -xx -s 1000000 -e trace=openat,open,creat,write,pwrite64,writev,ftruncate,
         fsync,fdatasync,rename,renameat,renameat2,unlink,unlinkat,mkdir,mkdirat,rmdir,close,lseek

Model of the file system: regular files (bytes) and directories under the case
directory.  Every mutating syscall on a path under `data/` is one *event*.  For
loss models the replayer also tracks, per file, the content at the last
fsync/fdatasync (durable content) and, per directory entry operation (create,
rename, unlink, mkdir), whether its parent directory was fsynced afterwards.

Crash images:
  M0  every syscall up to and including event i took effect, nothing is lost
  M1  as M0, but the last write event is torn: only the first half of its bytes
  M2  file data not covered by an fsync/fdatasync of that file is lost (content
      reverts to the durable content; a never-synced file is empty); directory
      operations are kept
Any mutating syscall on the data directory that the replayer does not understand
raises Unsupported (a tool error for the caller), it is never skipped silently.
"""
import os
import re
import shutil


class Unsupported(Exception):
    pass


def unhex(s):
    """strace -xx string literal -> bytes"""
    out = bytearray()
    i = 0
    while i < len(s):
        if s[i] == "\\" and i + 3 < len(s) + 1 and s[i + 1] == "x":
            out.append(int(s[i + 2:i + 4], 16))
            i += 4
        else:
            out.append(ord(s[i]))
            i += 1
    return bytes(out)


_line = re.compile(r"^(\d+)\s+(.*)$")
_unfinished = re.compile(r"^(.*) <unfinished \.\.\.>$")
_resumed = re.compile(r"^<\.\.\. (\w+) resumed>(.*)$")
_call = re.compile(r"^(\w+)\((.*)\)\s+= (-?\d+|\?)(.*)$", re.S)


def split_args(s):
    """split a syscall argument list at top-level commas (strings and <...> annotations respected)"""
    args, cur, depth, instr, i = [], "", 0, False, 0
    while i < len(s):
        c = s[i]
        if instr:
            cur += c
            if c == "\\":
                cur += s[i + 1]
                i += 1
            elif c == '"':
                instr = False
        elif c == '"':
            instr = True
            cur += c
        elif c in "<[{(":
            depth += 1
            cur += c
        elif c in ">]})":
            depth -= 1
            cur += c
        elif c == "," and depth == 0:
            args.append(cur.strip())
            cur = ""
        else:
            cur += c
        i += 1
    if cur.strip():
        args.append(cur.strip())
    return args


def fd_path(arg):
    m = re.match(r"^(\d+)<(.*)>$", arg, re.S)
    if not m:
        return None, None
    return int(m.group(1)), unhex(m.group(2)).decode("utf-8", "replace")


def strlit(arg):
    m = re.match(r'^"(.*)"(\.\.\.)?$', arg, re.S)
    if not m:
        raise Unsupported("string argument expected: " + arg[:60])
    if m.group(2):
        raise Unsupported("truncated string in strace output (raise -s)")
    return unhex(m.group(1))


def parse(log_path):
    """-> list of (pid, name, args(list of str), ret(int or None))"""
    calls = []
    pending = {}
    with open(log_path, errors="replace") as f:
        for raw in f:
            raw = raw.rstrip("\n")
            m = _line.match(raw)
            if not m:
                continue
            pid, rest = int(m.group(1)), m.group(2)
            if rest.startswith("+++") or rest.startswith("---"):
                continue
            u = _unfinished.match(rest)
            if u:
                pending[pid] = u.group(1)
                continue
            r = _resumed.match(rest)
            if r:
                rest = pending.pop(pid, r.group(1) + "(") + r.group(2)
            c = _call.match(rest)
            if not c:
                continue
            name, args, ret = c.group(1), c.group(2), c.group(3)
            calls.append((pid, name, split_args(args), None if ret == "?" else int(ret)))
    return calls


class FS:
    def __init__(self, cwd):
        self.cwd = cwd.rstrip("/")
        self.files = {}      # relpath -> bytearray (volatile content)
        self.durable = {}    # relpath -> bytes (content at last fsync) ; absent = never synced
        self.dirs = set()
        self.fdoff = {}      # (pid-agnostic) fd -> [relpath, offset, append]

    def rel(self, p):
        if p.startswith(self.cwd + "/"):
            p = p[len(self.cwd) + 1:]
        elif p.startswith("/"):
            return None
        p = os.path.normpath(p)
        return p

    def tracked(self, p):
        return p is not None and (p == "data" or p.startswith("data/"))

    def clone_state(self):
        return ({k: bytes(v) for k, v in self.files.items()}, dict(self.durable), set(self.dirs))


def events(calls, cwd):
    """Replays the calls; yields after every mutating event
    (index, kind, detail, fs_state, markers_seen) where markers_seen is the list of VERIF-* marker lines so far."""
    fs = FS(cwd)
    markers = []
    out = []
    n = 0

    def snap(kind, detail, torn=None):
        nonlocal n
        n += 1
        out.append({"i": n, "kind": kind, "detail": detail, "state": fs.clone_state(), "markers": list(markers),
                    "torn": torn})

    for pid, name, a, ret in calls:
        if name == "write" and a and a[0].startswith("2<"):
            txt = strlit(a[1]).decode("utf-8", "replace")
            for ln in txt.splitlines():
                if ln.startswith("VERIF-"):
                    markers.append(ln.strip())
            continue
        if ret is None or ret < 0:
            continue
        if name in ("openat", "open", "creat"):
            pathi = 1 if name == "openat" else 0
            p = strlit(a[pathi]).decode("utf-8", "replace")
            flags = a[pathi + 1] if len(a) > pathi + 1 else ""
            if name == "creat":
                flags = "O_WRONLY|O_CREAT|O_TRUNC"
            rp = fs.rel(p)
            if not fs.tracked(rp):
                continue
            if "O_DIRECTORY" in flags:
                fs.fdoff[ret] = [rp, 0, False, True]
                continue
            created = False
            if "O_CREAT" in flags and rp not in fs.files:
                fs.files[rp] = bytearray()
                created = True
            if "O_TRUNC" in flags and rp in fs.files and len(fs.files[rp]) > 0:
                fs.files[rp] = bytearray()
                created = True
            if rp not in fs.files:
                continue
            fs.fdoff[ret] = [rp, len(fs.files[rp]) if "O_APPEND" in flags else 0, "O_APPEND" in flags, False]
            if created:
                snap("create", rp)
        elif name in ("write", "pwrite64"):
            fd, p = fd_path(a[0])
            if fd not in fs.fdoff or fs.fdoff[fd][3]:
                continue
            ent = fs.fdoff[fd]
            # the fd annotation is the file's *current* path (it follows renames)
            rp = fs.rel(p) if p else ent[0]
            if rp in fs.files and rp != ent[0]:
                ent[0] = rp
            if ent[0] not in fs.files:
                raise Unsupported("write to unknown file " + ent[0])
            data = strlit(a[1])[:ret]
            off = int(a[3]) if name == "pwrite64" else (len(fs.files[ent[0]]) if ent[2] else ent[1])
            buf = fs.files[ent[0]]
            if off > len(buf):
                buf.extend(b"\0" * (off - len(buf)))
            before = bytes(buf)
            buf[off:off + len(data)] = data
            if name == "write":
                ent[1] = off + len(data)
            # torn variant: only the first half of this write reached the file
            half = bytearray(before)
            if off > len(half):
                half.extend(b"\0" * (off - len(half)))
            half[off:off + len(data) // 2] = data[:len(data) // 2]
            snap("write", ent[0], torn=(ent[0], bytes(half)) if len(data) > 1 else None)
        elif name == "writev":
            fd, p = fd_path(a[0])
            if fd in fs.fdoff:
                raise Unsupported("writev on a data file")
        elif name == "lseek":
            fd, p = fd_path(a[0])
            if fd in fs.fdoff and not fs.fdoff[fd][3]:
                fs.fdoff[fd][1] = ret
        elif name == "ftruncate":
            fd, p = fd_path(a[0])
            if fd in fs.fdoff:
                ent = fs.fdoff[fd]
                ln = int(a[1])
                fs.files[ent[0]] = fs.files[ent[0]][:ln] + bytearray(max(0, ln - len(fs.files[ent[0]])))
                snap("truncate", ent[0])
        elif name in ("fsync", "fdatasync"):
            fd, p = fd_path(a[0])
            if fd in fs.fdoff:
                ent = fs.fdoff[fd]
                if ent[3]:
                    snap("dirsync", ent[0])
                elif ent[0] in fs.files:
                    fs.durable[ent[0]] = bytes(fs.files[ent[0]])
                    snap("fsync", ent[0])
        elif name == "close":
            fd, p = fd_path(a[0])
            fs.fdoff.pop(fd, None)
        elif name in ("rename", "renameat", "renameat2"):
            if name == "rename":
                src, dst = a[0], a[1]
            else:
                src, dst = a[1], a[3]
            s, d = fs.rel(strlit(src).decode()), fs.rel(strlit(dst).decode())
            if not (fs.tracked(s) or fs.tracked(d)):
                continue
            if s in fs.files:
                fs.files[d] = fs.files.pop(s)
                if s in fs.durable:
                    fs.durable[d] = fs.durable.pop(s)
                else:
                    fs.durable.pop(d, None)
                for ent in fs.fdoff.values():
                    if ent[0] == s:
                        ent[0] = d
            elif s in fs.dirs:
                raise Unsupported("directory rename")
            else:
                raise Unsupported("rename of unknown path " + str(s))
            snap("rename", f"{s} -> {d}")
        elif name in ("unlink", "unlinkat"):
            p = fs.rel(strlit(a[0] if name == "unlink" else a[1]).decode())
            if not fs.tracked(p):
                continue
            if name == "unlinkat" and len(a) > 2 and "AT_REMOVEDIR" in a[2]:
                fs.dirs.discard(p)
                snap("rmdir", p)
                continue
            if p in fs.files:
                del fs.files[p]
                fs.durable.pop(p, None)
                snap("unlink", p)
        elif name in ("mkdir", "mkdirat"):
            p = fs.rel(strlit(a[0] if name == "mkdir" else a[1]).decode())
            if fs.tracked(p):
                fs.dirs.add(p)
                snap("mkdir", p)
        elif name == "rmdir":
            p = fs.rel(strlit(a[0]).decode())
            if fs.tracked(p):
                fs.dirs.discard(p)
                snap("rmdir", p)
    return out


def materialize(state, dest, model="M0", torn=None):
    """Writes the image of `state` under dest/ (dest/data/...)."""
    files, durable, dirs = state
    shutil.rmtree(dest, ignore_errors=True)
    os.makedirs(dest)
    for d in sorted(dirs):
        os.makedirs(os.path.join(dest, d), exist_ok=True)
    for p, content in files.items():
        if model == "M2":
            content = durable.get(p, b"")
        if model == "M1" and torn is not None and torn[0] == p:
            content = torn[1]
        full = os.path.join(dest, p)
        os.makedirs(os.path.dirname(full), exist_ok=True)
        with open(full, "wb") as f:
            f.write(content)

"""Engine `fs-crash`: C13 (acknowledged writes survive any crash, recovery always
succeeds) and C16 (rule / schema catalogs are crash-safe).

The real StorageEngine performs a history under strace (no hook in the
persistence code); tools/fsreplay.py rebuilds the data directory at every
file-system mutation boundary under loss models M0 (nothing lost), M1 (last
write torn), M2 (un-fsynced file data lost); `ilv recover` opens every image
with the real recovery code; spec/StoreTrace.tla (action Crash, Store!CrashOK)
accepts an image iff the store reopened and serves the state after some prefix
of the attempted operations that contains every acknowledged one.
"""
import json
import os
import random
import shutil
import subprocess
import sys
from concurrent.futures import ThreadPoolExecutor

import fsreplay
import vlib

STRACE = ["strace", "-f", "-y", "-xx", "-s", "1000000", "-e",
          "trace=openat,open,creat,write,pwrite64,writev,ftruncate,fsync,fdatasync,rename,renameat,renameat2,"
          "unlink,unlinkat,mkdir,mkdirat,rmdir,close,lseek"]


def t(i):
    return [["i64", str(i)], ["i64", str(i * 10)]]


def gen_history(rng, prop):
    ops = []
    n = rng.randint(3, 6)
    for _ in range(n):
        x = rng.random()
        rel = rng.choice(["r", "r", "s"])
        if prop == "C16" and x < 0.5:
            y = rng.random()
            if y < 0.45:
                nm = rng.choice(["v", "w"])
                ops.append({"k": "rule", "kg": "g", "name": nm, "text": f"{nm}(X, Y) <- r(X, Y)" if rng.random() < 0.6
                            else f"{nm}(X, Y) <- s(X, Y), r(Y, X)"})
            elif y < 0.6:
                ops.append({"k": "droprule", "kg": "g", "name": rng.choice(["v", "w"])})
            elif y < 0.9:
                cols = [["id", "Int"], ["name", rng.choice(["Int", "String"])]]
                ops.append({"k": "schema", "kg": "g", "rel": rng.choice(["t", "u"]), "cols": cols,
                            "schema": "[" + ",".join('("%s","%s")' % (c[0], c[1]) for c in cols) + "]"})
            else:
                ops.append({"k": "dropschema", "kg": "g", "rel": rng.choice(["t", "u"])})
        elif x < 0.55:
            ops.append({"k": "ins", "kg": "g", "rel": rel, "tuples": [t(rng.randint(1, 3)) for _ in range(rng.randint(1, 2))]})
        elif x < 0.8:
            ops.append({"k": "del", "kg": "g", "rel": rel, "tuples": [t(rng.randint(1, 3))]})
        elif x < 0.88:
            ops.append({"k": "compact", "kg": "g"})
        elif x < 0.94:
            ops.append({"k": "save", "kg": "g"})
        else:
            ops.append({"k": "droprel", "kg": "g", "rel": rel})
    return ops


def strip_ws(s):
    return "".join(s.split())


def op_for_spec(op):
    o = dict(op)
    if "text" in o:
        o["text"] = strip_ws(o["text"])
    return o


def select_points(evs):
    """Every event is a crash point, except inside long runs of writes to one file
    (json writers issue one write per token): first, middle and last of a run."""
    keep = []
    i = 0
    while i < len(evs):
        j = i
        while j + 1 < len(evs) and evs[j]["kind"] == "write" and evs[j + 1]["kind"] == "write" \
                and evs[j + 1]["detail"] == evs[i]["detail"]:
            j += 1
        if j - i >= 4:
            keep += [i, (i + j) // 2, j]
        else:
            keep += list(range(i, j + 1))
        i = j + 1
    return keep


def run_case(wd, k, ops, cfg, prop, models):
    """-> list of crash records (dicts) for one history"""
    cdir = os.path.join(wd, f"case{k}")
    shutil.rmtree(cdir, ignore_errors=True)
    os.makedirs(cdir)
    with open(os.path.join(cdir, "ops.json"), "w") as f:
        json.dump(ops, f)
    log = os.path.join(cdir, "strace.log")
    p = subprocess.run(STRACE + ["-o", log, vlib.ILV, "crash-workload", "--ops", "ops.json", "--cfg", json.dumps(cfg)],
                       cwd=cdir, stdout=subprocess.PIPE, stderr=subprocess.PIPE, text=True, timeout=300)
    if p.returncode != 0:
        raise vlib.ToolError(f"workload under strace exited {p.returncode}: {p.stderr[-300:]}")
    try:
        evs = fsreplay.events(fsreplay.parse(log), cdir)
    except fsreplay.Unsupported as e:
        raise vlib.ToolError("fsreplay: " + str(e))
    if not evs:
        raise vlib.ToolError("no file-system event recorded (strace unavailable?)")
    known = {"g": {}}
    for op in ops:
        if op["k"] in ("ins", "del") and op.get("tuples"):
            known["g"][op["rel"]] = len(op["tuples"][0])
    images = []
    for idx in select_points(evs):
        e = evs[idx]
        for m in models:
            if m == "M1" and not e["torn"]:
                continue
            d = os.path.join(cdir, f"img{e['i']}_{m}")
            fsreplay.materialize(e["state"], d, m, e["torn"])
            images.append((d, e, m))
    # recover: several processes (each image needs its own cwd)
    chunks = [images[i::8] for i in range(8)]
    results = {}

    def rec(ci):
        ch = chunks[ci]
        if not ch:
            return
        lst = os.path.join(cdir, f"list{ci}.txt")
        out = os.path.join(cdir, f"rec{ci}.ndjson")
        with open(lst, "w") as f:
            f.write("\n".join(d for d, _, _ in ch) + "\n")
        vlib.ilv(["recover", "--list", lst, "--known", json.dumps(known), "--cfg", json.dumps(cfg), "--out", out],
                 timeout=1800, cwd=cdir)
        with open(out) as f:
            for line in f:
                r = json.loads(line)
                results[r["dir"]] = r

    with ThreadPoolExecutor(max_workers=8) as ex:
        list(ex.map(rec, range(8)))
    s0 = {"kgs": ["g"], "facts": {"g": {}}, "rules": {"g": {}}, "schemas": {"g": {}}}
    recs = []
    for d, e, m in images:
        r = results.get(d)
        if r is None:
            raise vlib.ToolError("recover produced no record for " + d)
        marks = e["markers"]
        opened = "VERIF-OPENED" in marks
        attempted = [int(x.split()[1]) for x in marks if x.startswith("VERIF-ATTEMPT")]
        acked = [int(x.split()[1]) for x in marks if x.startswith("VERIF-ACK")]
        nacked = [int(x.split()[1]) for x in marks if x.startswith("VERIF-NACK")]
        # refused operations are no-ops; the log holds the attempted, not refused operations in order
        logidx = [i for i in attempted if i not in nacked]
        log = [op_for_spec(ops[i - 1]) for i in logidx]
        n_acked = len([i for i in logidx if i in acked])
        recs.append({"ev": "crash", "case": k, "pos": e["i"], "model": m, "prop": prop, "s0": s0, "log": log,
                     "acked": n_acked, "recovered": r["state"], "reopened": bool(r["reopened"]),
                     "err": r.get("err", r.get("panic", "")), "at": e["kind"] + " " + e["detail"][-50:],
                     "opened": opened})
        shutil.rmtree(d, ignore_errors=True)
    return recs, len(evs)


def run(prop, replay=None):
    tier = vlib.tier()
    rep = vlib.Report(prop)
    wd = vlib.workdir(prop)
    vlib.build_harness()
    rng = random.Random(vlib.seed() * 104729 + int(prop[1:]))
    ncases = int(os.environ.get("VERIF_N", {"quick": 6, "thorough": 60}[tier]))
    models = ["M0", "M1", "M2"]
    cases = []
    if replay:
        with open(replay) as f:
            c = json.load(f)
        cases = [(c["ops"], c["cfg"])]
    else:
        for i in range(ncases):
            cfg = {"buffer_size": rng.choice([1, 2, 10000]), "max_wal": rng.choice([0, 0, 300]), "durability": "immediate"}
            cases.append((gen_history(rng, prop), cfg))
    allrecs = []
    nevents = 0
    byc = {}
    try:
        for k, (ops, cfg) in enumerate(cases, 1):
            recs, ne = run_case(wd, k, ops, cfg, prop, models)
            nevents += ne
            allrecs += recs
            byc[k] = (ops, cfg)
    except vlib.ToolError as e:
        vlib.tool_error(str(e))
    trace = os.path.join(wd, "trace.ndjson")
    with open(trace, "w") as f:
        for r in allrecs:
            f.write(json.dumps(r) + "\n")
    try:
        res = vlib.tlc_trace("StoreTrace", trace, shards=12, timeout=3600)
    except vlib.ToolError as e:
        vlib.tool_error(str(e))
    rep.add_tlc(res)
    idx = {(r["case"], r["pos"], r["model"]): r for r in allrecs}
    judged = 0
    rejected = {}
    for ln in res.lines:
        if isinstance(ln, list) and ln[0] == "VERDICT" and ln[1] == prop:
            judged += 1
            _, _, cid, pos, ok, info = ln
            if not ok:
                r = idx[(cid, pos, info["model"])]
                ops, cfg = byc[cid]
                preds = {"crash.model_" + r["model"], "crash.at_" + r["at"].split()[0]}
                if not r["reopened"]:
                    preds.add("recover.failed")
                fn = r["at"].split()[-1]
                for tag in ("catalog.json", "schema.json", "current.wal", ".parquet", "shards/", "knowledge_graphs.json"):
                    if tag in fn:
                        preds.add("crash.file_" + tag.strip("./"))
                key = (cid, frozenset(preds))
                if key not in rejected:
                    rejected[key] = ({"ops": ops, "cfg": cfg, "crash_after_event": pos, "at": r["at"], "model": r["model"],
                                      "acked": r["acked"], "attempted": len(r["log"]), "reopened": r["reopened"],
                                      "err": r["err"], "recovered": r["recovered"]}, info, preds)
    for key, (case, info, preds) in sorted(rejected.items(), key=lambda x: (x[0][0], sorted(x[0][1]))):
        rep.reject(case, info, preds)
    if judged == 0:
        vlib.tool_error("no crash image was judged")
    rep.level = "model_checking"
    rep.cov.update({
        "evaluations": judged,
        "histories": len(cases),
        "fs_events": nevents,
        "distinct_nontrivial": len({(r["case"], r["pos"], r["model"]) for r in allrecs if r["opened"]}),
        "rule": "seeded histories of 3-6 operations (insert, delete, compact, save, relation drop"
                + (", rule register/drop, schema register/remove" if prop == "C16" else "")
                + ") under buffer_size {1,2,10000}, max_wal_size {0,300}, immediate durability; every file-system mutation of "
                  "the real process (strace) is a crash point (runs of per-token writes to one file: first/middle/last) x loss "
                  "models M0, M1 (torn last write), M2 (un-fsynced data lost); a crash image is non-trivial once the store had "
                  "finished opening; distinct = (history, event, model)",
        "traces_validated_against_impl": len(allrecs),
        "samples": [{"ops": c[0], "cfg": c[1]} for c in cases[:2]],
        "loss_models": models,
    })
    rep.assumptions += ["POSIX model of tools/fsreplay.py (documented loss models; directory-entry loss M3 not modelled)",
                        "single client; acknowledgement order taken from VERIF-ACK markers in the same syscall log"]
    rep.cov["trusted_base"] += ["strace", "tools/fsreplay.py"]
    rep.finish()


if __name__ == "__main__":
    run(sys.argv[1], sys.argv[sys.argv.index("--replay") + 1] if "--replay" in sys.argv else None)

----------------------------- MODULE RuleTrace -----------------------------
(***************************************************************************)
(* Layer C.  Trace specification for C09.  One record per generated rule   *)
(* (written by `ilv drive-rules`):                                         *)
(*   [ev |-> "rule", case, accepted, clauses, modes, infrag, ast, edb,     *)
(*    head]                                                                *)
(*   clauses[i] = [text, parsed, printed, reparse_ok, d1, d2]: the clause  *)
(*        as submitted, as printed by Display, and the renderings of the   *)
(*        syntax trees of both (opaque tokens: the specification only      *)
(*        compares them);                                                  *)
(*   modes = [inline, session, persistent, restarted |-> [ok, rows]]: the  *)
(*        answer of ?head(..) with the clauses submitted in that way.      *)
(* A rule the parser accepts must                                          *)
(*   roundtrip  print to a text that parses to the same syntax tree,       *)
(*   same       have the same outcome and the same rows in all four modes  *)
(*              (rows are exact tokens: kind and every bit count),         *)
(*   model      when the rule lies in the fragment of Datalog.tla (ast     *)
(*              given), have exactly Datalog!Answer as its inline rows.    *)
(***************************************************************************)
EXTENDS Datalog, Json, IOUtils

Rec == ndJsonDeserialize(IOEnv.TRACE)

VARIABLES l
vars == <<l>>

Modes == { "inline", "session", "persistent", "restarted" }
RowSet(m) == { m.rows[i] : i \in DOMAIN m.rows }
Agree(a, b) == a.ok = b.ok /\ (a.ok => RowSet(a) = RowSet(b))
Out(x) == PrintT(ToJson(x))

Step == /\ l <= Len(Rec) /\ Rec[l].ev = "rule"
        /\ LET R == Rec[l] IN
           IF ~R.accepted
           THEN Out(<<"VERDICT", "C09skip", R.case, 0, TRUE, [why |-> "not accepted by the parser"]>>)
           ELSE LET rt == \A i \in DOMAIN R.clauses : R.clauses[i].reparse_ok /\ R.clauses[i].d1 = R.clauses[i].d2
                    M == R.modes
                    differing == { a \in Modes : ~Agree(M[a], M["inline"]) }
                    db == [r \in DOMAIN R.edb |-> ToSet(R.edb[r])]
                    \* (a rule form the engine refuses in every mode alike, e.g. arithmetic on both
                    \*  sides of a comparison, is not a C09 matter: only answers are compared)
                    model == (R.infrag /\ M["inline"].ok) =>
                                { M["inline"].lrows[i] : i \in DOMAIN M["inline"].lrows } = Answer(R.ast, db, R.head)
                    what == IF ~rt THEN "roundtrip" ELSE IF differing # {} THEN "modes_differ"
                            ELSE IF ~model THEN "differs_from_model" ELSE "ok"
                IN Out(<<"VERDICT", "C09", R.case, 0, what = "ok",
                         [what |-> what, roundtrip |-> rt, differing |-> differing, infrag |-> R.infrag,
                          answered |-> M["inline"].ok, rows |-> Len(M["inline"].rows)]>>)
        /\ l' = l + 1

Hang == /\ l <= Len(Rec) /\ Rec[l].ev = "hang"
        /\ Out(<<"VERDICT", "HANG", Rec[l].case, 0, FALSE, [k |-> "hang"]>>)
        /\ l' = l + 1

Init == l = 1
Next == Step \/ Hang
Spec == Init /\ [][Next]_vars

Consumed == TLCGet("stats").diameter = Len(Rec) + 1 \/ PrintT(<<"UNCONSUMED", TLCGet("stats").diameter, Len(Rec)>>)
=============================================================================

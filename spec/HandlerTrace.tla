---------------------------- MODULE HandlerTrace ----------------------------
(***************************************************************************)
(* Layer C.  Trace specification for requests executed by the real         *)
(* protocol Handler (programs, sessions, authorization).  Records:         *)
(*   [ev |-> "reset", case, state]                                         *)
(*   [ev |-> "step", case, step, k, who, req, res, state]                  *)
(* `cur` is the abstract state last observed (graphs, served facts, rules, *)
(* schemas, sessions); every step is judged as a transition cur -> state   *)
(* for the properties listed in req.judge and cur is re-synchronised.      *)
(*                                                                         *)
(*  C27  every graph whose facts/rules/schemas changed was writable by the *)
(*       caller (Auth!CanWrite), dropped graphs droppable, created graphs  *)
(*       creatable; rows returned carry no marker value of a graph the     *)
(*       caller cannot read                                                *)
(*  C29  same for the internal graph (only admins), and no session ends up *)
(*       bound to it                                                       *)
(*  C30  a program with an unparsable statement is refused and changes     *)
(*       nothing; a parsable program of known statements has the effect of *)
(*       its statements in order (Store!ApplySeq)                          *)
(*  C32  write reports (new / deleted counts) are those of the set model   *)
(***************************************************************************)
EXTENDS Store, Auth, Json, IOUtils

Rec == ndJsonDeserialize(IOEnv.TRACE)

VARIABLES l, cur
vars == <<l, cur>>

RelMap(o)  == [r \in DOMAIN o |-> ToSetS(o[r])]
ConvSess(o) == [kg |-> o.kg, alive |-> o.alive, facts |-> RelMap(o.facts), rules |-> ToSetS(o.rules)]
ConvState(o) ==
  [kgs     |-> ToSetS(o.kgs),
   facts   |-> [g \in DOMAIN o.facts |-> RelMap(o.facts[g])],
   rules   |-> [g \in DOMAIN o.rules |-> [n \in DOMAIN o.rules[g] |-> ToSetS(o.rules[g][n])]],
   schemas |-> [g \in DOMAIN o.schemas |-> [r \in DOMAIN o.schemas[g] |-> o.schemas[g][r]]],
   sessions |-> [x \in DOMAIN o.sessions |-> ConvSess(o.sessions[x])]]
NoDupObs(o) == \A g \in DOMAIN o.facts : \A r \in DOMAIN o.facts[g] :
                  \A i, j \in DOMAIN o.facts[g][r] : i # j => o.facts[g][r][i] # o.facts[g][r][j]

Graph(s, g) == [f |-> Get(s.facts, g, EmptyMap), r |-> Get(s.rules, g, EmptyMap), s |-> Get(s.schemas, g, EmptyMap)]
Persistent(s) == [kgs |-> s.kgs, facts |-> s.facts, rules |-> s.rules, schemas |-> s.schemas]

Id(w) == [user |-> w.user, g |-> w.g, acl |-> w.acl]

\* graphs whose persistent content the step changed without permission
Unauthorized(id, s, t) ==
     { g \in s.kgs \cap t.kgs : Graph(s, g) # Graph(t, g) /\ ~CanWrite(id, g) }
  \cup { g \in s.kgs \ t.kgs : ~CanDrop(id, g) }
  \cup { g \in t.kgs \ s.kgs : ~CanCreate(id, g) }

\* C29: the internal graph may change under a non-admin request only through
\* access-control management of graphs the caller owns (grant/revoke by an owner,
\* the owner entry of a graph the caller just created, the entries of a graph the
\* caller just dropped): every other relation of it is untouched and every added
\* or removed kg_acls tuple (graph, user, role) names such a graph.
InternalChangeOK(id, s, t) ==
  LET a == Rel(s, INTERNAL, "kg_acls")
      b == Rel(t, INTERNAL, "kg_acls")
      others(x) == [r \in DOMAIN Get(x.facts, INTERNAL, EmptyMap) \ { "kg_acls" } |-> x.facts[INTERNAL][r]]
      Owns(g) == KRank(Acl(id, g)) = 3 \/ (g \in t.kgs \ s.kgs /\ CanCreate(id, g))
  IN /\ INTERNAL \in t.kgs
     /\ others(s) = others(t)
     /\ Get(s.rules, INTERNAL, EmptyMap) = Get(t.rules, INTERNAL, EmptyMap)
     /\ Get(s.schemas, INTERNAL, EmptyMap) = Get(t.schemas, INTERNAL, EmptyMap)
     /\ \A tup \in (a \ b) \cup (b \ a) : Len(tup) = 3 /\ Owns(tup[1][2])

\* graphs whose marker values show up in the returned rows
RowVals(rows) == UNION { ToSetS(rows[i]) : i \in DOMAIN rows }
Leaked(rows, markers) == { g \in DOMAIN markers : RowVals(rows) \cap ToSetS(markers[g]) # {} }

Out(x) == PrintT(ToJson(x))
Has(R, p) == \E i \in DOMAIN R.req.judge : R.req.judge[i] = p

Reset == /\ l <= Len(Rec) /\ Rec[l].ev = "reset"
         /\ cur' = ConvState(Rec[l].state)
         /\ l' = l + 1

Step == /\ l <= Len(Rec) /\ Rec[l].ev = "step"
        /\ LET R  == Rec[l]
               t  == ConvState(R.state)
               id == Id(R.who)
               un == Unauthorized(id, cur, t)
               lk == { g \in Leaked(R.res.rows, R.req.markers) : ~CanRead(id, g) }
           IN /\ Has(R, "C27") =>
                    Out(<<"VERDICT", "C27", R.case, R.step, (un \ { INTERNAL }) = {} /\ (lk \ { INTERNAL }) = {},
                          [changed |-> un, leaked |-> lk, ok |-> R.res.ok]>>)
              /\ Has(R, "C29") =>
                    Out(<<"VERDICT", "C29", R.case, R.step,
                          IsAdmin(id) \/ ( /\ InternalChangeOK(id, cur, t) /\ INTERNAL \notin lk
                                           /\ R.res.switched # INTERNAL
                                           /\ \A x \in DOMAIN t.sessions :
                                                 (x \in DOMAIN cur.sessions /\ cur.sessions[x].kg # INTERNAL)
                                                    => t.sessions[x].kg # INTERNAL ),
                          [changed |-> un, leaked |-> lk, switched |-> R.res.switched, ok |-> R.res.ok]>>)
              \* C30.  "fails to parse" is relative to the system's statement parser
              \* (res.parses, one flag per statement).  A program with such a statement
              \* must be refused and change nothing; a program the generator built only
              \* from known statements (req.bad = FALSE) must have their effect in order.
              \* A program with an injected oddity that the parser accepts is not judged.
              /\ (Has(R, "C30") /\ (\E i \in DOMAIN R.res.parses : ~R.res.parses[i])) =>
                    Out(<<"VERDICT", "C30", R.case, R.step,
                          ~R.res.ok /\ Persistent(t) = Persistent(cur),
                          [unparsable |-> TRUE, ok |-> R.res.ok, same |-> Persistent(t) = Persistent(cur)]>>)
              /\ (Has(R, "C30") /\ ~R.req.bad /\ Len(R.res.parses) > 0
                    /\ (\A i \in DOMAIN R.res.parses : R.res.parses[i])) =>
                    Out(<<"VERDICT", "C30", R.case, R.step,
                          R.res.ok /\ Persistent(t) = Persistent(ApplySeq(R.req.ops, cur, 1)),
                          [unparsable |-> FALSE, ok |-> R.res.ok, same |-> Persistent(t) = Persistent(cur)]>>)
              /\ Out(<<"STEP", R.case, R.step, NoDupObs(R.state)>>)
              /\ cur' = t
        /\ l' = l + 1

Hang == /\ l <= Len(Rec) /\ Rec[l].ev = "hang"
        /\ Out(<<"VERDICT", "HANG", Rec[l].case, 0, FALSE, [k |-> "hang"]>>)
        /\ UNCHANGED cur
        /\ l' = l + 1

Init == l = 1 /\ cur = [kgs |-> {}, facts |-> EmptyMap, rules |-> EmptyMap, schemas |-> EmptyMap, sessions |-> EmptyMap]
Next == Reset \/ Step \/ Hang
Spec == Init /\ [][Next]_vars

Consumed == TLCGet("stats").diameter = Len(Rec) + 1 \/ PrintT(<<"UNCONSUMED", TLCGet("stats").diameter, Len(Rec)>>)
=============================================================================

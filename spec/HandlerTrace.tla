---------------------------- MODULE HandlerTrace ----------------------------
(***************************************************************************)
(* Layer C.  Trace specification for requests executed by the real         *)
(* protocol Handler (programs, sessions, authorization).  Records:         *)
(*   [ev |-> "reset", case, state]                                         *)
(*   [ev |-> "step", case, step, k, who, req, res, state]                  *)
(* `cur` is the abstract state last observed (graphs, served facts, rules, *)
(* schemas, sessions); every step is judged as a transition cur -> state   *)
(* for the properties listed in req.judge and cur is re-synchronised.      *)
(*                                                                         *)
(*  C27  every graph whose facts/rules/schemas changed was writable by the *)
(*       caller (Auth!CanWrite), dropped graphs droppable, created graphs  *)
(*       creatable; rows returned carry no marker value of a graph the     *)
(*       caller cannot read                                                *)
(*  C29  same for the internal graph (only admins), and no session ends up *)
(*       bound to it                                                       *)
(*  C30  a program with an unparsable statement is refused and changes     *)
(*       nothing; a parsable program of known statements has the effect of *)
(*       its statements in order (Store!ApplySeq)                          *)
(*  C32  write reports (new / deleted counts) are those of the set model   *)
(***************************************************************************)
EXTENDS Store, Auth, Page, Datalog, Json, IOUtils

\* ---- C33: conformance of a stored value (exact-kind token) to a declared column
\* type.  MustAccept: the kind the type names.  MustReject: a kind no documented
\* coercion maps into the type.  Everything else (int into float, int as bool,
\* timestamps, vectors, `any`, named types) is left open.
\* a type is a name, or "vector:<n>" for vector(n): a vector of another dimension must be rejected
VecDim(ty) == CHOOSE n \in 0..16 : ty = "vector:" \o ToString(n)
IsVecTy(ty) == \E n \in 0..16 : ty = "vector:" \o ToString(n)
MustAcceptV(v, ty) ==
  CASE ty = "int"    -> v[1] \in { "i64", "i32" }
    [] ty = "string" -> v[1] = "s"
    [] ty = "float"  -> v[1] = "f"
    [] ty = "bool"   -> v[1] = "b"
    [] IsVecTy(ty)   -> v[1] = "v" /\ Len(v[2]) = VecDim(ty)
    [] OTHER -> FALSE
MustRejectV(v, ty) ==
  CASE ty = "int"    -> v[1] \in { "s", "b", "v" }
    [] ty = "string" -> v[1] \in { "i64", "i32", "f", "b", "v" }
    [] ty = "float"  -> v[1] \in { "s", "b", "v" }
    [] ty = "bool"   -> v[1] \in { "s", "f", "v" }
    [] IsVecTy(ty)   -> v[1] # "v" \/ Len(v[2]) # VecDim(ty)
    [] OTHER -> FALSE
MustAcceptT(x, types) == Len(x) = Len(types) /\ \A i \in DOMAIN types : MustAcceptV(x[i], types[i])
MustRejectT(x, types) == Len(x) # Len(types) \/ \E i \in DOMAIN types : MustRejectV(x[i], types[i])

Rec == ndJsonDeserialize(IOEnv.TRACE)

VARIABLES l, cur
vars == <<l, cur>>

RelMap(o)  == [r \in DOMAIN o |-> ToSetS(o[r])]
ConvSess(o) == [kg |-> o.kg, alive |-> o.alive, facts |-> RelMap(o.facts), rules |-> ToSetS(o.rules)]
ConvState(o) ==
  [kgs     |-> ToSetS(o.kgs),
   facts   |-> [g \in DOMAIN o.facts |-> RelMap(o.facts[g])],
   rules   |-> [g \in DOMAIN o.rules |-> [n \in DOMAIN o.rules[g] |-> ToSetS(o.rules[g][n])]],
   schemas |-> [g \in DOMAIN o.schemas |-> [r \in DOMAIN o.schemas[g] |-> o.schemas[g][r]]],
   sessions |-> [x \in DOMAIN o.sessions |-> ConvSess(o.sessions[x])]]
NoDupObs(o) == \A g \in DOMAIN o.facts : \A r \in DOMAIN o.facts[g] :
                  \A i, j \in DOMAIN o.facts[g][r] : i # j => o.facts[g][r][i] # o.facts[g][r][j]

Graph(s, g) == [f |-> Get(s.facts, g, EmptyMap), r |-> Get(s.rules, g, EmptyMap), s |-> Get(s.schemas, g, EmptyMap)]
Persistent(s) == [kgs |-> s.kgs, facts |-> s.facts, rules |-> s.rules, schemas |-> s.schemas]

\* the caller's graph roles are those the system holds when the request arrives (the
\* kg_acls relation of the internal graph in `cur`): a user who created a graph in an
\* earlier request owns it, whatever the scenario's initial ACL list said
LiveAcl(s, user) ==
  LET T == { tup \in Rel(s, INTERNAL, "kg_acls") : Len(tup) = 3 /\ tup[2][2] = user } IN
  [g \in { tup[1][2] : tup \in T } |-> (CHOOSE tup \in T : tup[1][2] = g)[3][2]]
Id(w) == [user |-> w.user, g |-> w.g, acl |-> LiveAcl(cur, w.user)]

\* graphs whose persistent content the step changed without permission
Unauthorized(id, s, t) ==
     { g \in s.kgs \cap t.kgs : Graph(s, g) # Graph(t, g) /\ ~CanWrite(id, g) }
  \cup { g \in s.kgs \ t.kgs : ~CanDrop(id, g) }
  \cup { g \in t.kgs \ s.kgs : ~CanCreate(id, g) }

\* C29: the internal graph may change under a non-admin request only through
\* access-control management of graphs the caller owns (grant/revoke by an owner,
\* the owner entry of a graph the caller just created, the entries of a graph the
\* caller just dropped): every other relation of it is untouched and every added
\* or removed kg_acls tuple (graph, user, role) names such a graph.
InternalChangeOK(id, s, t) ==
  LET a == Rel(s, INTERNAL, "kg_acls")
      b == Rel(t, INTERNAL, "kg_acls")
      others(x) == [r \in DOMAIN Get(x.facts, INTERNAL, EmptyMap) \ { "kg_acls" } |-> x.facts[INTERNAL][r]]
      Owns(g) == KRank(Acl(id, g)) = 3 \/ (g \in t.kgs \ s.kgs /\ CanCreate(id, g))
  IN /\ INTERNAL \in t.kgs
     /\ others(s) = others(t)
     /\ Get(s.rules, INTERNAL, EmptyMap) = Get(t.rules, INTERNAL, EmptyMap)
     /\ Get(s.schemas, INTERNAL, EmptyMap) = Get(t.schemas, INTERNAL, EmptyMap)
     /\ \A tup \in (a \ b) \cup (b \ a) : Len(tup) = 3 /\ Owns(tup[1][2])

\* graphs whose marker values show up in the returned rows
RowVals(rows) == UNION { ToSetS(rows[i]) : i \in DOMAIN rows }
Leaked(rows, markers) == { g \in DOMAIN markers : RowVals(rows) \cap ToSetS(markers[g]) # {} }

\* reports[i] = <<kind, n1, ...>> parsed from the i-th acknowledgement message;
\* its first number is the count the set model reports for the i-th statement
RECURSIVE RepOK(_, _, _, _)
RepOK(ops, reps, s, i) ==
  IF i > Len(ops) THEN TRUE
  ELSE /\ Len(reps[i]) >= 2 /\ reps[i][2] = Reported(ops[i], s)
       /\ RepOK(ops, reps, Apply(ops[i], s), i + 1)
RECURSIVE WantReports(_, _, _)
WantReports(ops, s, i) == IF i > Len(ops) THEN <<>>
                          ELSE <<Reported(ops[i], s)>> \o WantReports(ops, Apply(ops[i], s), i + 1)

Out(x) == PrintT(ToJson(x))
Has(R, p) == \E i \in DOMAIN R.req.judge : R.req.judge[i] = p

Reset == /\ l <= Len(Rec) /\ Rec[l].ev = "reset"
         /\ cur' = ConvState(Rec[l].state)
         /\ l' = l + 1

Step == /\ l <= Len(Rec) /\ Rec[l].ev = "step"
        /\ LET R  == Rec[l]
               t  == ConvState(R.state)
               id == Id(R.who)
               un == Unauthorized(id, cur, t)
               lk == { g \in Leaked(R.res.rows, R.req.markers) : ~CanRead(id, g) }
           IN /\ Has(R, "C27") =>
                    Out(<<"VERDICT", "C27", R.case, R.step, (un \ { INTERNAL }) = {} /\ (lk \ { INTERNAL }) = {},
                          [changed |-> un, leaked |-> lk, ok |-> R.res.ok]>>)
              /\ Has(R, "C29") =>
                    Out(<<"VERDICT", "C29", R.case, R.step,
                          IsAdmin(id) \/ ( /\ InternalChangeOK(id, cur, t) /\ INTERNAL \notin lk
                                           /\ R.res.switched # INTERNAL
                                           /\ \A x \in DOMAIN t.sessions :
                                                 (x \in DOMAIN cur.sessions /\ cur.sessions[x].kg # INTERNAL)
                                                    => t.sessions[x].kg # INTERNAL ),
                          [changed |-> un, leaked |-> lk, switched |-> R.res.switched, ok |-> R.res.ok]>>)
              \* C30.  "fails to parse" is relative to the system's statement parser
              \* (res.parses, one flag per statement).  A program with such a statement
              \* must be refused and change nothing; a program the generator built only
              \* from known statements (req.bad = FALSE) must have their effect in order.
              \* A program with an injected oddity that the parser accepts is not judged.
              /\ (Has(R, "C30") /\ (\E i \in DOMAIN R.res.parses : ~R.res.parses[i])) =>
                    Out(<<"VERDICT", "C30", R.case, R.step,
                          ~R.res.ok /\ Persistent(t) = Persistent(cur),
                          [unparsable |-> TRUE, ok |-> R.res.ok, same |-> Persistent(t) = Persistent(cur)]>>)
              /\ (Has(R, "C30") /\ ~R.req.bad /\ Len(R.res.parses) > 0
                    /\ (\A i \in DOMAIN R.res.parses : R.res.parses[i])) =>
                    Out(<<"VERDICT", "C30", R.case, R.step,
                          R.res.ok /\ Persistent(t) = Persistent(ApplySeq(R.req.ops, cur, 1)),
                          [unparsable |-> FALSE, ok |-> R.res.ok, same |-> Persistent(t) = Persistent(cur)]>>)
              \* C32: relations stay sets, the program has the effect of its statements
              \* under the set model, and every write report carries the set model's count
              /\ Has(R, "C32") =>
                    Out(<<"VERDICT", "C32", R.case, R.step,
                          /\ R.res.ok /\ NoDupObs(R.state)
                          /\ Persistent(t) = Persistent(ApplySeq(R.req.ops, cur, 1))
                          /\ Len(R.res.reports) = Len(R.req.ops)
                          /\ RepOK(R.req.ops, R.res.reports, cur, 1),
                          [ok |-> R.res.ok, nodup |-> NoDupObs(R.state),
                           state |-> Persistent(t) = Persistent(ApplySeq(R.req.ops, cur, 1)),
                           reports |-> R.res.reports,
                           want |-> WantReports(R.req.ops, cur, 1)]>>)
              \* C35: the returned rows are the requested slice of the same engine's
              \* unsorted, unlimited answer (req.ref_text), sorted by the annotations
              /\ Has(R, "C35") =>
                    Out(<<"VERDICT", "C35", R.case, R.step,
                          /\ R.res.ok /\ R.res.ref.ok
                          /\ R.res.total = Cardinality(ToSetS(R.res.ref.rows))
                          /\ IsSortedSlice(R.res.rows, ToSetS(R.res.ref.rows), R.req.keys, R.req.limit, R.req.offset,
                                           R.req.srank),
                          [ok |-> R.res.ok, total |-> R.res.total, full |-> Len(R.res.ref.rows), got |-> Len(R.res.rows)]>>)
              \* C33: a declared schema is enforced (req.types = declared column types of req.rel)
              \* (judged only if the system shows a schema for the relation: a declaration the
              \*  statement parser did not take as one declares nothing)
              /\ (Has(R, "C33") /\ R.req.rel \in DOMAIN Get(cur.schemas, R.req.kg, EmptyMap)) =>
                    LET g == R.req.kg
                        pre == Rel(cur, g, R.req.rel)
                        post == Rel(t, g, R.req.rel)
                        batch == ToSetS(R.req.ops[1].tuples)
                        rej == \E x \in batch : MustRejectT(x, R.req.types)
                        acc == \A x \in batch : MustAcceptT(x, R.req.types)
                    IN Out(<<"VERDICT", "C33", R.case, R.step,
                             /\ rej => post = pre
                             /\ acc => post = pre \cup batch
                             /\ \A x \in post : ~MustRejectT(x, R.req.types),
                             [rej |-> rej, acc |-> acc, unchanged |-> post = pre, applied |-> post = pre \cup batch,
                              stored_bad |-> { x \in post : MustRejectT(x, R.req.types) }]>>)
              \* C34: recursion through negation is refused, stratified sets are accepted.
              \* req.pers = Seq([text, ast]) persistent rules submitted so far, req.sess =
              \* Seq(ast) the request's own session rules
              /\ Has(R, "C34") =>
                    LET g == R.req.kg
                        known == UNION { Get(t.rules, g, EmptyMap)[n] : n \in DOMAIN Get(t.rules, g, EmptyMap) }
                        accepted == SelectSeq(R.req.pers, LAMBDA p : p.text \in known)
                        P == [i \in 1..Len(accepted) |-> accepted[i].ast] \o R.req.sess
                        allP == [i \in 1..Len(R.req.pers) |-> R.req.pers[i].ast] \o R.req.sess
                    IN Out(<<"VERDICT", "C34", R.case, R.step,
                             /\ ~NegStratified(P) => ~R.res.ok
                             /\ NegStratified(allP) => (R.res.ok /\ Len(accepted) = Len(R.req.pers)),
                             [strat |-> NegStratified(P), stratall |-> NegStratified(allP), ok |-> R.res.ok,
                              accepted |-> Len(accepted), submitted |-> Len(R.req.pers)]>>)
              /\ Out(<<"STEP", R.case, R.step, NoDupObs(R.state)>>)
              /\ cur' = t
        /\ l' = l + 1

Hang == /\ l <= Len(Rec) /\ Rec[l].ev = "hang"
        /\ Out(<<"VERDICT", "HANG", Rec[l].case, 0, FALSE, [k |-> "hang"]>>)
        /\ UNCHANGED cur
        /\ l' = l + 1

Init == l = 1 /\ cur = [kgs |-> {}, facts |-> EmptyMap, rules |-> EmptyMap, schemas |-> EmptyMap, sessions |-> EmptyMap]
Next == Reset \/ Step \/ Hang
Spec == Init /\ [][Next]_vars

Consumed == TLCGet("stats").diameter = Len(Rec) + 1 \/ PrintT(<<"UNCONSUMED", TLCGet("stats").diameter, Len(Rec)>>)
=============================================================================

SPECIFICATION Spec
CONSTANT MaxLen = 2
INVARIANT IsModel
INVARIANT Supported
INVARIANT ExtendsDB
INVARIANT OrderFree
INVARIANT DupFree
INVARIANT Monotone
INVARIANT StratAgrees
CHECK_DEADLOCK FALSE

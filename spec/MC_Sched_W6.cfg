SPECIFICATION Spec
CONSTANT Steps <- StepsW6
INVARIANT Emit
CHECK_DEADLOCK FALSE

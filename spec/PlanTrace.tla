----------------------------- MODULE PlanTrace -----------------------------
(***************************************************************************)
(* Layer C.  Trace specification for C05.  One record per plan (written by *)
(* `ilv drive-plans`):                                                     *)
(*   [ev |-> "plan", case, idx, origin, db, before, after, exec]           *)
(*   after[p] = [ok, supported, plan, changed]: the tree the real rewrite  *)
(*        pass p produced from `before` (join_planning,                    *)
(*        boolean_specialization, optimizer = fixpoint + fusion, pipeline  *)
(*        = all three in pipeline order);                                  *)
(*   exec[x]  = [ok, rows]: what the real CodeGenerator returned for the   *)
(*        tree (x = before or a pass) on db.                               *)
(* The specification evaluates the trees itself (Plan!Eval).               *)
(*   explained   the unoptimized tree means to the executor what it means  *)
(*               to the specification: exec.before = Eval(before) (the     *)
(*               binding of Plan.tla to the code; a record where this      *)
(*               fails is reported under C05u and not judged further);     *)
(*   C05         for every pass: the pass did not panic, the rewritten     *)
(*               tree denotes the same relation (Eval(after) =             *)
(*               Eval(before)) and the executor returns that relation for  *)
(*               it.                                                       *)
(***************************************************************************)
EXTENDS Plan, Json, IOUtils

Rec == ndJsonDeserialize(IOEnv.TRACE)

VARIABLES l
vars == <<l>>

Passes == { "join_planning", "boolean_specialization", "optimizer", "pipeline" }
SetOf(s) == { s[i] : i \in DOMAIN s }
Out(x) == PrintT(ToJson(x))

Step == /\ l <= Len(Rec) /\ Rec[l].ev = "plan"
        /\ LET R == Rec[l]
               db == [r \in DOMAIN R.db |-> SetOf(R.db[r])]
               E0 == Eval(R.before, db)
               explained == R.exec["before"].ok /\ SetOf(R.exec["before"].rows) = E0
               panicked == { p \in Passes : ~R.after[p].ok }
               evalBad == { p \in Passes : R.after[p].ok /\ R.after[p].supported /\ Eval(R.after[p].plan, db) # E0 }
               execBad == { p \in Passes : R.after[p].ok /\ ~(R.exec[p].ok /\ SetOf(R.exec[p].rows) = E0) }
           IN IF ~explained
              THEN Out(<<"VERDICT", "C05u", R.case, R.idx, FALSE,
                         [origin |-> R.origin, exec_ok |-> R.exec["before"].ok, spec_rows |-> Cardinality(E0),
                          exec_rows |-> Len(R.exec["before"].rows)]>>)
              ELSE Out(<<"VERDICT", "C05", R.case, R.idx, panicked = {} /\ evalBad = {} /\ execBad = {},
                         [origin |-> R.origin, panicked |-> panicked, eval_differs |-> evalBad, exec_differs |-> execBad,
                          rows |-> Cardinality(E0),
                          changed |-> { p \in Passes : R.after[p].ok /\ R.after[p].changed }]>>)
        /\ l' = l + 1

Init == l = 1
Next == Step
Spec == Init /\ [][Next]_vars

Consumed == TLCGet("stats").diameter = Len(Rec) + 1 \/ PrintT(<<"UNCONSUMED", TLCGet("stats").diameter, Len(Rec)>>)
=============================================================================

SPECIFICATION Spec
CONSTANT Writers <- Writers2
CONSTANT Shards <- Shards2
CONSTANT Pre <- Pre2
CONSTANT Atomic = FALSE
CONSTANT MaxFlush = 3
INVARIANT Durable
INVARIANT NothingOnlyInMemory
CHECK_DEADLOCK FALSE

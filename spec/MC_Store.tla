------------------------------ MODULE MC_Store ------------------------------
(***************************************************************************)
(* Exhaustive history enumeration for the store (spec -> impl direction of *)
(* C11 / C14 / C17): every history of length N over the alphabet below is  *)
(* a behaviour of the abstract machine Store; one JSON line per behaviour  *)
(* is printed and replayed on the real StorageEngine by `ilv replay-store`.*)
(* The observed state after every step is then judged by StoreTrace.       *)
(* Model-checked here: the abstract machine's own laws (Maintenance and    *)
(* restarts are stutters, relations stay sets, graphs are isolated).       *)
(***************************************************************************)
EXTENDS Store, Json

CONSTANTS N,        \* history length
          Mode      \* "single" (one graph, one relation) | "multi" (two graphs, create/drop)

T1 == << <<"i64", 1>>, <<"i64", 10>> >>
T2 == << <<"i64", 2>>, <<"i64", 20>> >>

Op(k, g, ts) == [k |-> k, kg |-> g, rel |-> "r", tuples |-> ts]

Single == { Op("ins", "g", <<T1>>), Op("ins", "g", <<T2>>), Op("ins", "g", <<T1, T1>>), Op("ins", "g", <<T1, T2>>),
            Op("del", "g", <<T1>>), Op("del", "g", <<T2>>),
            Op("save", "g", <<>>), Op("compact", "g", <<>>), Op("restart", "g", <<>>), Op("restart_nosave", "g", <<>>) }
Multi  == { Op("ins", "g", <<T1>>), Op("ins", "h", <<T1>>), Op("ins", "h", <<T2>>), Op("del", "h", <<T1>>),
            Op("create", "h", <<>>), Op("drop", "h", <<>>), Op("restart", "g", <<>>), Op("restart_nosave", "g", <<>>),
            [k |-> "rule", kg |-> "h", name |-> "v", text |-> "v(X, Y) <- r(X, Y)"],
            [k |-> "rule", kg |-> "g", name |-> "v", text |-> "v(X, Y) <- r(X, Y)"] }
Letters == IF Mode = "single" THEN Single ELSE Multi

VARIABLES s, hist
vars == <<s, hist>>

Init == s = InitState("g") /\ hist = <<>>
\* an operation that the abstract machine says must fail is still part of the
\* history (the implementation must refuse it); the abstract state is unchanged
Next == /\ Len(hist) < N
        /\ \E op \in Letters :
             /\ hist' = Append(hist, op)
             /\ s' = IF MustFail(op, s) THEN s ELSE Apply(op, s)
Spec == Init /\ [][Next]_vars

\* a write followed (not necessarily directly) by a restart / maintenance / drop
Interesting == \E i, j \in DOMAIN hist : /\ i < j
                                         /\ hist[i].k \in { "ins", "del", "create", "rule" }
                                         /\ hist[j].k \in Restarts \cup Maintenance \cup { "drop" }
Emit == (Len(hist) = N /\ Interesting) => PrintT(ToJson([ev |-> "hist", ops |-> hist]))

\* laws of the abstract machine
MaintenanceStutters == \A op \in Letters : op.k \in Maintenance \cup Restarts => Apply(op, s) = s
DropFinal == \A op \in Letters : op.k = "drop" =>
                LET t == Apply(op, s) IN op.kg \notin t.kgs /\ op.kg \notin DOMAIN t.facts /\ op.kg \notin DOMAIN t.rules
KGIsolation == \A op \in Letters : ~MustFail(op, s) => Isolated(s, op, Apply(op, s))
=============================================================================

SPECIFICATION Spec
CONSTANT Scripts <- ScriptsC
INVARIANT Isolation
INVARIANT Emit
CHECK_DEADLOCK FALSE

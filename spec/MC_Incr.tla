------------------------------ MODULE MC_Incr ------------------------------
(***************************************************************************)
(* Every history of length N over a small alphabet of base-fact writes,    *)
(* rule registrations (including a rule over another derived relation and *)
(* a second clause of a rule), clause removal, rule drop, switching        *)
(* incremental maintenance on, and restart (C18).  TLC checks the laws of  *)
(* Incr.tla in every state and prints each history that switches           *)
(* incremental maintenance on and registers a rule; the harness runs it on *)
(* a real Handler twice (with and without the switch) and IncrTrace judges *)
(* every step of both runs (spec -> impl).                                 *)
(***************************************************************************)
EXTENDS Incr, Json
CONSTANTS Alpha, N, Pre
VARIABLES s, hist

V(n) == [t |-> "v", n |-> n]
I(n) == <<"i", n>>
Pos(r, a) == [k |-> "pos", r |-> r, a |-> a]
Neg(r, a) == [k |-> "neg", r |-> r, a |-> a]
Cl(r, a, b) == [h |-> [r |-> r, a |-> a], b |-> b]
X == <<V("X")>>
PIns(r, tup) == [k |-> "pins", rel |-> r, tup |-> tup]
PDel(r, tup) == [k |-> "pdel", rel |-> r, tup |-> tup]
PRule(n, text, ast) == [k |-> "prule", name |-> n, text |-> text, ast |-> ast]
RRemove(n, i) == [k |-> "rremove", name |-> n, idx |-> i]
RDrop(n) == [k |-> "rdrop", name |-> n]

RuleD1 == PRule("d", "d(X)<-r(X)", Cl("d", X, <<Pos("r", X)>>))
RuleD2 == PRule("d", "d(X)<-s(X)", Cl("d", X, <<Pos("s", X)>>))
RuleC  == PRule("c", "c(X)<-d(X)", Cl("c", X, <<Pos("d", X)>>))
RuleN  == PRule("n", "n(X)<-s(X),!d(X)", Cl("n", X, <<Pos("s", X), Neg("d", X)>>))

Pre1   == << PIns("s", <<I(3)>>), PIns("s", <<I(1)>>) >>
Alpha1 == << PIns("r", <<I(1)>>), PDel("r", <<I(1)>>), PIns("r", <<I(2)>>), RuleD1, RuleD2, RuleC, RuleN,
             RRemove("d", 1), RDrop("d"), [k |-> "enable"], [k |-> "restart"] >>
Asts1  == [t \in { Alpha1[i].text : i \in { i \in DOMAIN Alpha1 : Alpha1[i].k = "prule" } } |->
             (CHOOSE o \in Range(Alpha1) : o.k = "prule" /\ o.text = t).ast]

RECURSIVE ApplyAll(_, _, _)
ApplyAll(st, ops, i) == IF i > Len(ops) THEN st ELSE ApplyAll(Apply18(st, ops[i]), ops, i + 1)

Init == s = ApplyAll(InitKG, Pre, 1) /\ hist = <<>>
Next == /\ Len(hist) < N
        /\ \E i \in DOMAIN Alpha : /\ s' = Apply18(s, Alpha[i])
                                   /\ hist' = Append(hist, Alpha[i])
Spec == Init /\ [][Next]_<<s, hist>>

QRels == { "d", "c", "n", "r", "s" }
\* laws of the abstract machine
FlagInvisible == \A q \in QRels : Ans18(s, Asts1, q) = Ans18([s EXCEPT !.incr = ~@], Asts1, q)
RefusedChangesNothing == \A i \in DOMAIN Alpha : MustFail18(s, Alpha[i]) => Apply18(s, Alpha[i]) = s
NoEmptyRule == \A n \in DOMAIN s.pr : Len(s.pr[n]) >= 1
\* a derived-on-derived answer follows its input: c = d whenever c's only clause is registered
DerivedFollows == ("c" \in DOMAIN s.pr /\ "d" \in DOMAIN s.pr) => Ans18(s, Asts1, "c") = Ans18(s, Asts1, "d")

Interesting == /\ \E i \in DOMAIN hist : hist[i].k = "enable"
               /\ \E i \in DOMAIN hist : hist[i].k = "prule"
Emit == (Len(hist) = N /\ Interesting) => PrintT(ToJson([ev |-> "hist", pre |-> Pre, ops |-> hist, asts |-> Asts1]))
=============================================================================

SPECIFICATION Spec
CONSTANTS N = 4
  Mode = "single"
INVARIANT Emit MaintenanceStutters DropFinal KGIsolation
CHECK_DEADLOCK FALSE

SPECIFICATION Spec
CONSTANTS N = 5
  Mode = "single"
INVARIANT Emit MaintenanceStutters DropFinal KGIsolation
CHECK_DEADLOCK FALSE

-------------------------------- MODULE Page --------------------------------
(***************************************************************************)
(* Layer A.  Ordered and paginated results (C35).                          *)
(* Rows are sequences of tagged values.  Only *comparable* pairs constrain *)
(* the order: two integers, two finite floats (scaled), or two strings of  *)
(* the trace's small alphabet (their lexicographic rank is supplied, TLC   *)
(* having no string order).  Everything else (cross-kind pairs, NaN,       *)
(* nulls) is a tie: the statement leaves its place open.                   *)
(***************************************************************************)
EXTENDS Integers, Sequences, FiniteSets, TLC

ToSetP(s) == { s[i] : i \in DOMAIN s }

Comparable(a, b, srank) ==
  \/ a[1] = "i" /\ b[1] = "i"
  \/ a[1] = "f" /\ b[1] = "f"
  \/ a[1] = "s" /\ b[1] = "s" /\ a[2] \in DOMAIN srank /\ b[2] \in DOMAIN srank
LessV(a, b, srank) ==
  /\ Comparable(a, b, srank)
  /\ IF a[1] = "s" THEN srank[a[2]] < srank[b[2]] ELSE a[2] < b[2]

\* keys = Seq([col, dir]); r1 must precede r2 iff on the first key where they are
\* not identical they are comparable and strictly ordered in the key's direction
MustPrecede(r1, r2, keys, srank) ==
  \E k \in DOMAIN keys :
     /\ \A j \in 1..(k - 1) : r1[keys[j].col] = r2[keys[j].col]
     /\ IF keys[k].dir = "asc" THEN LessV(r1[keys[k].col], r2[keys[k].col], srank)
                               ELSE LessV(r2[keys[k].col], r1[keys[k].col], srank)

Min2(a, b) == IF a < b THEN a ELSE b
Max0(a) == IF a < 0 THEN 0 ELSE a

\* out is the slice [offset+1 .. offset+limit] (limit < 0: no limit) of SOME
\* ordering of the set `full` that respects MustPrecede
IsSortedSlice(out, full, keys, limit, offset, srank) ==
  LET O    == ToSetP(out)
      n    == Cardinality(full)
      off  == Min2(offset, n)
      want == IF limit < 0 THEN n - off ELSE Min2(limit, n - off)
      Rest == full \ O
  IN /\ O \subseteq full
     /\ Cardinality(O) = Len(out)
     /\ Len(out) = want
     /\ \A i, j \in DOMAIN out : i < j => ~MustPrecede(out[j], out[i], keys, srank)
     /\ \E B \in SUBSET Rest :
          /\ Cardinality(B) = off
          /\ \A b \in B : \A o \in O : ~MustPrecede(o, b, keys, srank)
          /\ \A a \in Rest \ B : \A o \in O : ~MustPrecede(a, o, keys, srank)
          /\ \A b \in B : \A a \in Rest \ B : ~MustPrecede(a, b, keys, srank)
=============================================================================

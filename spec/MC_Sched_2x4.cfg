SPECIFICATION Spec
CONSTANT Steps <- Steps2x4
INVARIANT Emit
CHECK_DEADLOCK FALSE

----------------------------- MODULE IncrTrace -----------------------------
(***************************************************************************)
(* Layer C.  Trace specification for C18.  One history is executed twice   *)
(* on real Handlers: the judged run, in which incremental maintenance is   *)
(* switched on at some step, and the reference run, identical except that  *)
(* the switch is replaced by a query.  After every step every relation of  *)
(* the menu is queried (res.probe).  Records (the reference run's          *)
(* observations are joined to the judged run's record as field `off`):     *)
(*   [ev |-> "reset", case, state]                                         *)
(*   [ev |-> "step", case, step, req, res, state, off]                     *)
(*        req.c18 = the Incr operation, req.asts = clause text -> syntax   *)
(* Every step is judged as the transition sys -> Apply18(sys, op):         *)
(*   state   observed facts and rule clauses (per rule, in order) are the  *)
(*           specification's; the reference run is in the same state;      *)
(*   answers every probe of the judged run has the outcome and exactly the *)
(*           rows of the reference run ("what a fresh evaluation           *)
(*           returns"), duplicate-free;                                    *)
(*   model   (reported, and part of the verdict only if the reference run  *)
(*           agrees with it) the rows are Datalog!Answer of the current    *)
(*           rules over the current facts.                                 *)
(***************************************************************************)
EXTENDS Incr, Json, IOUtils

Rec == ndJsonDeserialize(IOEnv.TRACE)

VARIABLES l, sys
vars == <<l, sys>>

G == "g"
ParseI(s) == CHOOSE n \in -1..99 : ToString(n) = s
Lv(v) == IF v[1] = "i64" THEN <<"i", ParseI(v[2])>> ELSE v
LT(tup) == [i \in DOMAIN tup |-> Lv(tup[i])]
LRel(seq) == { LT(seq[i]) : i \in DOMAIN seq }
LMap(o) == NormF([r \in DOMAIN o |-> LRel(o[r])])
ObsPF(facts) == IF G \in DOMAIN facts THEN LMap(facts[G]) ELSE EmptyF
ObsPR(rules) == IF G \in DOMAIN rules THEN [n \in DOMAIN rules[G] |-> rules[G][n]] ELSE [n \in {} |-> <<>>]

RowSet(p) == { p.rows[i] : i \in DOMAIN p.rows }
NoDupP(p) == Cardinality(RowSet(p)) = Len(p.rows)
Out(x) == PrintT(ToJson(x))

Reset == /\ l <= Len(Rec) /\ Rec[l].ev = "reset"
         /\ sys' = [pf |-> ObsPF(Rec[l].state.facts), pr |-> ObsPR(Rec[l].state.rules), incr |-> FALSE]
         /\ l' = l + 1

Step == /\ l <= Len(Rec) /\ Rec[l].ev = "step"
        /\ LET R == Rec[l]
               op == R.req.c18
               asts == R.req.asts
               acked == R.res.ok
               want == IF acked THEN Apply18(sys, op) ELSE sys
               obsPF == ObsPF(R.state.facts)
               obsPR == ObsPR(R.state.rules)
               \* (whether removing / dropping what does not exist is reported as an error is not judged:
               \*  Apply18 leaves the state alone in that case)
               stateOK == NormF(want.pf) = obsPF /\ want.pr = obsPR
               offOK == ObsPF(R.off.facts) = obsPF /\ ObsPR(R.off.rules) = obsPR
               textsOK == \A n \in DOMAIN obsPR : \A i \in DOMAIN obsPR[n] : obsPR[n][i] \in DOMAIN asts
               cur == [pf |-> obsPF, pr |-> obsPR, incr |-> want.incr]
               Q == DOMAIN R.res.probe
               Same(q) == LET a == R.res.probe[q]  b == R.off.probe[q] IN
                          a.ok = b.ok /\ (a.ok => (RowSet(a) = RowSet(b) /\ NoDupP(a)))
               defined == textsOK /\ ~Dangling(cur, asts)
               ModelOK(p, q) == KnownRel(cur, asts, q) => (p.ok /\ RowSet(p) = Ans18(cur, asts, q))
               differ == { q \in Q : ~Same(q) }
               onBad  == IF defined THEN { q \in Q : ~ModelOK(R.res.probe[q], q) } ELSE {}
               offBad == IF defined THEN { q \in Q : ~ModelOK(R.off.probe[q], q) } ELSE {}
               what == IF ~stateOK THEN "state" ELSE IF ~offOK THEN "state_differs_from_reference_run"
                       ELSE IF ~textsOK THEN "rule_text_changed" ELSE IF differ # {} THEN "answers_differ_from_fresh_evaluation"
                       ELSE "ok"
           IN /\ Out(<<"VERDICT", "C18", R.case, R.step, what = "ok",
                       [k |-> op.k, what |-> what, acked |-> acked, incr |-> want.incr, differ |-> differ,
                        on_vs_model |-> onBad, off_vs_model |-> offBad, model_defined |-> defined,
                        nonempty |-> Cardinality({ q \in Q : R.res.probe[q].ok /\ Len(R.res.probe[q].rows) > 0 })]>>)
              /\ sys' = cur
        /\ l' = l + 1

Hang == /\ l <= Len(Rec) /\ Rec[l].ev = "hang"
        /\ Out(<<"VERDICT", "HANG", Rec[l].case, 0, FALSE, [k |-> "hang"]>>)
        /\ UNCHANGED sys
        /\ l' = l + 1

Init == l = 1 /\ sys = InitKG
Next == Reset \/ Step \/ Hang
Spec == Init /\ [][Next]_vars

Consumed == TLCGet("stats").diameter = Len(Rec) + 1 \/ PrintT(<<"UNCONSUMED", TLCGet("stats").diameter, Len(Rec)>>)
=============================================================================

------------------------------- MODULE KgLife -------------------------------
(***************************************************************************)
(* Layer B.  The life cycle of one knowledge graph h against a concurrent  *)
(* insert (StorageEngine::insert_tuples_into, drop_knowledge_graph,        *)
(* create_knowledge_graph), one action per critical section (C15, C17).    *)
(*                                                                         *)
(*   inc       the current incarnation of h (0 = h does not exist)         *)
(*   tomb      h is in `dropping_kgs` (tombstone)                          *)
(*   disk      entries in h's shard files, each tagged with the            *)
(*             incarnation it was written for (recovery cannot see the     *)
(*             tag: it loads whatever the shard files of the name hold)    *)
(*   mem       incarnation -> tuples served                                *)
(* The inserter: Begin (read guard on dropping_kgs taken, tombstone        *)
(* checked, graph looked up), Persist (WAL + shard buffer), Apply          *)
(* (in-memory update), each refusing when the graph is gone.               *)
(* Held = TRUE: the guard and the graph's write lock are held from Begin   *)
(* to Apply and the graph object is the one looked up at Begin - the code  *)
(* since the repair 9a3b9b0.  Held = FALSE: the guard is released after    *)
(* Persist and Apply looks the graph up again - the pinned code, where a   *)
(* drop + re-create between Persist and Apply makes the new incarnation    *)
(* serve a tuple whose shard was deleted (TLC: ServedIsDurable violated).  *)
(* The dropper: Prepare (tombstone - waits for guards -, removal from the  *)
(* map), Finish (shard files deleted, tombstone removed), then Create.     *)
(***************************************************************************)
EXTENDS Integers, FiniteSets, TLC

CONSTANTS Held,     \* BOOLEAN, see above
          Old       \* ids of the tuples h holds initially

VARIABLES inc, tomb, disk, mem, ipc, itarget, guard, dpc, acked
vars == <<inc, tomb, disk, mem, ipc, itarget, guard, dpc, acked>>

NewId == 100   \* the id the inserter writes

Init == /\ inc = 1 /\ tomb = FALSE
        /\ disk = { [id |-> x, inc |-> 1] : x \in Old }
        /\ mem = [i \in 1..2 |-> IF i = 1 THEN Old ELSE {}]
        /\ ipc = "start" /\ itarget = 0 /\ guard = FALSE
        /\ dpc = "idle" /\ acked = FALSE

\* ---- the inserter
Begin == /\ ipc = "start"
         /\ IF tomb \/ inc = 0
            THEN ipc' = "refused" /\ UNCHANGED <<itarget, guard>>
            ELSE ipc' = "begun" /\ itarget' = inc /\ guard' = TRUE
         /\ UNCHANGED <<inc, tomb, disk, mem, dpc, acked>>
Persist == /\ ipc = "begun"
           /\ disk' = disk \cup { [id |-> NewId, inc |-> itarget] }
           /\ ipc' = "persisted"
           /\ guard' = IF Held THEN guard ELSE FALSE          \* pinned code: guard released here
           /\ UNCHANGED <<inc, tomb, mem, itarget, dpc, acked>>
Apply == /\ ipc = "persisted"
         /\ IF Held
            THEN /\ mem' = [mem EXCEPT ![itarget] = @ \cup { NewId }]
                 /\ ipc' = "done" /\ acked' = TRUE
            ELSE IF inc = 0                                    \* pinned code: looks the graph up again
                 THEN mem' = mem /\ ipc' = "refused" /\ acked' = acked
                 ELSE /\ mem' = [mem EXCEPT ![inc] = @ \cup { NewId }]
                      /\ ipc' = "done" /\ acked' = TRUE
         /\ guard' = FALSE
         /\ UNCHANGED <<inc, tomb, disk, itarget, dpc>>

\* ---- the dropper, then the re-creation
Prepare == /\ dpc = "idle" /\ inc # 0 /\ ~guard               \* dropping_kgs.write() waits for every read guard
           /\ tomb' = TRUE /\ inc' = 0 /\ dpc' = "prepared"
           /\ UNCHANGED <<disk, mem, ipc, itarget, guard, acked>>
Finish == /\ dpc = "prepared"
          /\ disk' = {} /\ tomb' = FALSE /\ dpc' = "dropped"
          /\ UNCHANGED <<inc, mem, ipc, itarget, guard, acked>>
Create == /\ dpc = "dropped" /\ ~tomb /\ inc = 0
          /\ inc' = 2 /\ dpc' = "recreated"
          /\ UNCHANGED <<tomb, disk, mem, ipc, itarget, guard, acked>>

Next == Begin \/ Persist \/ Apply \/ Prepare \/ Finish \/ Create
Spec == Init /\ [][Next]_vars

Served == IF inc = 0 THEN {} ELSE mem[inc]
Recovered == { e.id : e \in disk }
Quiescent == ipc \in { "start", "done", "refused" } /\ dpc \in { "idle", "recreated" }

\* what is served survives a restart, and a restart serves nothing else (C15 for this pair of operations)
ServedIsDurable == Quiescent => Served = Recovered
\* once the drop is acknowledged nothing of the dropped incarnation is served or on disk (C17)
DropFinal == dpc \in { "dropped", "recreated" } =>
                /\ Served \cap Old = {}
                /\ \A e \in disk : e.id \notin Old
\* an acknowledged insert into the surviving incarnation is served
AckedIsServed == (Quiescent /\ acked /\ itarget = inc) => NewId \in Served
=============================================================================

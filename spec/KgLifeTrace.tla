---------------------------- MODULE KgLifeTrace ----------------------------
(***************************************************************************)
(* Layer C.  The logs of the forced interleavings of workload              *)
(* drop_recreate (an insert into h racing drop h + create h) as behaviours *)
(* of KgLife.tla (Held = TRUE).  One line per event:                       *)
(*   [ev |-> "reset", case]                                                *)
(*   [ev |-> "begin", case]      inserter passed se.write.after_time       *)
(*   [ev |-> "wal", case]        ... persist.append.after_wal              *)
(*   [ev |-> "iret", case, ok]   the insert returned (acknowledged or not) *)
(*   [ev |-> "dcall" | "dret", case]   drop h called / returned            *)
(*   [ev |-> "ccall" | "cret", case]   create h called / returned          *)
(*   [ev |-> "image", case, rec]  crash image: ids recovered in h          *)
(*   [ev |-> "served", case, ids] ids served in h at the end               *)
(* The drop (Prepare then Finish) and the create take effect somewhere     *)
(* between their call and their return: TLC places them (Silent..).  Image *)
(* and served events are enabled only if they equal KgLife!Recovered /     *)
(* KgLife!Served; the KgLife invariants are checked in every state.        *)
(***************************************************************************)
EXTENDS KgLife, Json, IOUtils, Sequences

Rec == ndJsonDeserialize(IOEnv.TRACE)

VARIABLES l, dpend, cpend
tvars == <<l, dpend, cpend, vars>>

Out(x) == PrintT(ToJson(x))
IsEv(e) == l <= Len(Rec) /\ Rec[l].ev = e
LastOfCase == l = Len(Rec) \/ Rec[l + 1].ev = "reset"
Consume == /\ l' = l + 1
           /\ (LastOfCase => Out(<<"CASEOK", Rec[l].case>>))
Keep == UNCHANGED <<dpend, cpend>>

Reset == /\ IsEv("reset")
         /\ inc' = 1 /\ tomb' = FALSE
         /\ disk' = { [id |-> x, inc |-> 1] : x \in Old }
         /\ mem' = [i \in 1..2 |-> IF i = 1 THEN Old ELSE {}]
         /\ ipc' = "start" /\ itarget' = 0 /\ guard' = FALSE /\ dpc' = "idle" /\ acked' = FALSE
         /\ dpend' = FALSE /\ cpend' = FALSE /\ Consume

EvBegin == IsEv("begin") /\ Begin /\ ipc' = "begun" /\ Keep /\ Consume
EvWal   == IsEv("wal") /\ Persist /\ Keep /\ Consume
EvIRetOk == /\ IsEv("iret") /\ Rec[l].ok /\ Apply /\ ipc' = "done" /\ Keep /\ Consume
\* a refused insert: refused at Begin (no scheduling point was passed)
EvIRetRefused == /\ IsEv("iret") /\ ~Rec[l].ok /\ Begin /\ ipc' = "refused" /\ Keep /\ Consume
EvDCall == IsEv("dcall") /\ dpend' = TRUE /\ UNCHANGED <<cpend, vars>> /\ Consume
EvCCall == IsEv("ccall") /\ cpend' = TRUE /\ UNCHANGED <<dpend, vars>> /\ Consume
SilentPrepare == l <= Len(Rec) /\ dpend /\ Prepare /\ UNCHANGED <<l, dpend, cpend>>
SilentFinish  == l <= Len(Rec) /\ dpend /\ Finish /\ dpend' = FALSE /\ UNCHANGED <<l, cpend>>
SilentCreate  == l <= Len(Rec) /\ cpend /\ Create /\ cpend' = FALSE /\ UNCHANGED <<l, dpend>>
EvDRet == IsEv("dret") /\ ~dpend /\ dpc \in { "dropped", "recreated" } /\ UNCHANGED <<dpend, cpend, vars>> /\ Consume
EvCRet == IsEv("cret") /\ ~cpend /\ dpc = "recreated" /\ UNCHANGED <<dpend, cpend, vars>> /\ Consume
EvImage == /\ IsEv("image")
           /\ { Rec[l].rec[i] : i \in DOMAIN Rec[l].rec } = Recovered
           /\ UNCHANGED <<dpend, cpend, vars>> /\ Consume
EvServed == /\ IsEv("served")
            /\ { Rec[l].ids[i] : i \in DOMAIN Rec[l].ids } = Served
            /\ UNCHANGED <<dpend, cpend, vars>> /\ Consume

NextReset(i) == IF \E j \in (i + 1)..Len(Rec) : Rec[j].ev = "reset"
                THEN CHOOSE j \in (i + 1)..Len(Rec) : Rec[j].ev = "reset" /\ \A k \in (i + 1)..(j - 1) : Rec[k].ev # "reset"
                ELSE Len(Rec) + 1
Abandon == /\ l <= Len(Rec) /\ Rec[l].ev # "reset"
           /\ l' = NextReset(l) /\ UNCHANGED <<dpend, cpend, vars>>

TInit == /\ l = 1 /\ dpend = FALSE /\ cpend = FALSE /\ Init
TNext == Reset \/ EvBegin \/ EvWal \/ EvIRetOk \/ EvIRetRefused \/ EvDCall \/ EvCCall \/ SilentPrepare \/ SilentFinish
         \/ SilentCreate \/ EvDRet \/ EvCRet \/ EvImage \/ EvServed \/ Abandon
TSpec == TInit /\ [][TNext]_tvars
=============================================================================

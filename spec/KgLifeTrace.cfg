SPECIFICATION TSpec
CONSTANT Held = TRUE
CONSTANT Old = {2}
CHECK_DEADLOCK FALSE

----------------------------- MODULE MC_Session -----------------------------
(***************************************************************************)
(* Every interleaving, at request granularity, of the scripts of 2-3       *)
(* sessions, a persistent writer and a request-local program (C10).        *)
(* TLC checks the isolation statements of Session.tla in every reachable   *)
(* state and prints each complete interleaving as one JSON line; the       *)
(* harness submits the requests in that order to the real Handler and      *)
(* SessionTrace judges every observed step (spec -> impl).                 *)
(***************************************************************************)
EXTENDS Session, Json
CONSTANT Scripts        \* [pre |-> Seq(op), run |-> [actor -> Seq(op)], q |-> query relations]
VARIABLES sys, pc, hist

Actors == DOMAIN Scripts.run

RECURSIVE ApplyAll(_, _, _)
ApplyAll(s, ops, i) == IF i > Len(ops) THEN s ELSE ApplyAll(Apply10(s, ops[i]), ops, i + 1)

Init == /\ sys = ApplyAll(InitSys, Scripts.pre, 1)
        /\ pc = [a \in Actors |-> 1]
        /\ hist = Scripts.pre
Next == \E a \in Actors : /\ pc[a] <= Len(Scripts.run[a])
                          /\ sys' = Apply10(sys, Scripts.run[a][pc[a]])
                          /\ pc' = [pc EXCEPT ![a] = @ + 1]
                          /\ hist' = Append(hist, Scripts.run[a][pc[a]])
Spec == Init /\ [][Next]_<<sys, pc, hist>>

\* the isolation statements hold for every request that can come next
Isolation == \A a \in Actors : pc[a] <= Len(Scripts.run[a]) =>
                LET op == Scripts.run[a][pc[a]] IN
                /\ KeepsPersistent(sys, op)
                /\ KeepsOtherAnswers(sys, op, Scripts.q)
                /\ LocalLeavesNothing(sys, op)

Done == \A a \in Actors : pc[a] > Len(Scripts.run[a])
Emit == Done => PrintT(ToJson([ev |-> "hist", ops |-> hist]))

---------------------------------------------------------------------------
(* script sets (a .cfg file cannot hold records)                           *)
V(n) == [t |-> "v", n |-> n]
I(n) == <<"i", n>>
Pos(r, a) == [k |-> "pos", r |-> r, a |-> a]
Neg(r, a) == [k |-> "neg", r |-> r, a |-> a]
Cl(r, a, b) == [h |-> [r |-> r, a |-> a], b |-> b]
X == <<V("X")>>
RuleDiff == [text |-> "d(X) <- r(X), !s(X)", ast |-> Cl("d", X, <<Pos("r", X), Neg("s", X)>>)]
RuleCopy == [text |-> "d(X) <- r(X)",        ast |-> Cl("d", X, <<Pos("r", X)>>)]
RulePR   == [text |-> "p(X) <- r(X)",        ast |-> Cl("p", X, <<Pos("r", X)>>)]
RulePS   == [text |-> "p(X) <- s(X)",        ast |-> Cl("p", X, <<Pos("s", X)>>)]
RuleL    == [text |-> "l(X) <- r(X), !s(X)", ast |-> Cl("l", X, <<Pos("r", X), Neg("s", X)>>)]
RuleT1   == [text |-> "t(X, Y) <- e(X, Y)",  ast |-> Cl("t", <<V("X"), V("Y")>>, <<Pos("e", <<V("X"), V("Y")>>)>>)]
RuleT2   == [text |-> "t(X, Z) <- t(X, Y), e(Y, Z)",
             ast |-> Cl("t", <<V("X"), V("Z")>>, <<Pos("t", <<V("X"), V("Y")>>), Pos("e", <<V("Y"), V("Z")>>)>>)]
RuleU    == [text |-> "u(X) <- t(X, X)",     ast |-> Cl("u", X, <<Pos("t", <<V("X"), V("X")>>)>>)]

Open(x)            == [k |-> "open", sid |-> x]
SFact(x, r, tup)   == [k |-> "sfact", sid |-> x, rel |-> r, tup |-> tup]
SRetract(x, r, tup) == [k |-> "sretract", sid |-> x, rel |-> r, tup |-> tup]
SRule(x, rule)     == [k |-> "srule", sid |-> x, text |-> rule.text, ast |-> rule.ast]
SQuery(x, r, n)    == [k |-> "squery", sid |-> x, rel |-> r, ar |-> n]
PIns(r, tup)       == [k |-> "pins", rel |-> r, tup |-> tup]
PDel(r, tup)       == [k |-> "pdel", rel |-> r, tup |-> tup]
PRule(rule)        == [k |-> "prule", text |-> rule.text, ast |-> rule.ast]
Local(fs, rs, r, n) == [k |-> "local", facts |-> fs, rules |-> [i \in DOMAIN rs |-> rs[i].ast],
                        texts |-> [i \in DOMAIN rs |-> rs[i].text], rel |-> r, ar |-> n]

\* negation over a session's own facts, against a persistent writer
ScriptsA == [pre |-> << PIns("r", <<I(1)>>), Open("A"), Open("B") >>,
             run |-> [A |-> << SFact("A", "s", <<I(1)>>), SRule("A", RuleDiff), SQuery("A", "d", 1) >>,
                      B |-> << SFact("B", "r", <<I(3)>>), SRule("B", RuleCopy), SQuery("B", "d", 1) >>,
                      W |-> << PIns("r", <<I(2)>>), PDel("r", <<I(1)>>) >>],
             q |-> { "d", "r", "s" }]
\* a session rule with the head of a persistent rule, a retraction, a request-local program
ScriptsB == [pre |-> << PIns("r", <<I(1)>>), PIns("r", <<I(2)>>), PRule(RulePR), Open("A"), Open("B") >>,
             run |-> [A |-> << SFact("A", "s", <<I(3)>>), SRule("A", RulePS), SQuery("A", "p", 1) >>,
                      B |-> << SFact("B", "r", <<I(4)>>), SQuery("B", "p", 1), SRetract("B", "r", <<I(4)>>), SQuery("B", "p", 1) >>,
                      L |-> << Local(<< [rel |-> "r", tup |-> <<I(5)>>], [rel |-> "s", tup |-> <<I(1)>>] >>, << RuleL >>, "l", 1) >>],
             q |-> { "p", "r", "s" }]
\* recursion over persistent and session edges, three sessions
ScriptsC == [pre |-> << PIns("e", <<I(1), I(2)>>), PRule(RuleT1), PRule(RuleT2), Open("A"), Open("B"), Open("C") >>,
             run |-> [A |-> << SFact("A", "e", <<I(2), I(3)>>), SQuery("A", "t", 2) >>,
                      B |-> << SFact("B", "e", <<I(2), I(1)>>), SQuery("B", "t", 2) >>,
                      C |-> << SRule("C", RuleU), SQuery("C", "u", 1) >>,
                      W |-> << PIns("e", <<I(3), I(1)>>) >>],
             q |-> { "t", "u", "e" }]
=============================================================================

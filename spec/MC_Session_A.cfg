SPECIFICATION Spec
CONSTANT Scripts <- ScriptsA
INVARIANT Isolation
INVARIANT Emit
CHECK_DEADLOCK FALSE

----------------------------- MODULE MatrixTrace -----------------------------
(***************************************************************************)
(* C28.  The laws of Auth.tla evaluated by TLC on the *real* decision      *)
(* matrix: one record [ev |-> "matrix", cells |-> Seq([layer, role, kind,  *)
(* text, allowed])] dumped by the harness from authorize_statement /       *)
(* authorize_kg_operation for every statement and meta-command variant     *)
(* (several sample texts per variant) and every role.                      *)
(* The classification of kinds below is the specification's own, written   *)
(* from the property statement.                                            *)
(***************************************************************************)
EXTENDS Auth, Json, IOUtils

Rec == ndJsonDeserialize(IOEnv.TRACE)

\* statements that change the persistent state of a knowledge graph
MutatingData == { "Insert", "Delete", "Update", "PersistentRule", "SchemaDecl", "DeleteRelationOrRule", "TypeDecl",
                  "RelDrop", "RuleDrop", "RuleDropPrefix", "RuleEdit", "RuleClear", "RuleRemove",
                  "IndexCreate", "IndexDrop", "IndexRebuild", "ClearPrefix", "Load", "KgDrop", "KgAclGrant", "KgAclRevoke" }
\* statements that change system-level persistent state
MutatingSystem == { "KgCreate", "UserCreate", "UserDrop", "UserPassword", "UserRole", "ApiKeyCreate", "ApiKeyRevoke", "Compact" }
\* "only admins may manage users, API keys or compaction"
AdminOnlyKinds == { "UserCreate", "UserDrop", "UserPassword", "UserRole", "ApiKeyCreate", "ApiKeyRevoke", "Compact" }

VARIABLE l
Cells == Rec[1].cells
Idx(layer, role, text) == { i \in DOMAIN Cells : Cells[i].layer = layer /\ Cells[i].role = role /\ Cells[i].text = text }
AllowedT(layer, role, text) == \A i \in Idx(layer, role, text) : Cells[i].allowed
Texts == { Cells[i].text : i \in DOMAIN Cells }
KindOf(text) == Cells[CHOOSE i \in DOMAIN Cells : Cells[i].text = text].kind

\* monotone per layer, for every sample text
MonoBad == { <<layer, text>> \in { "global", "kg" } \X Texts :
               LET R == IF layer = "global" THEN GlobalRoles ELSE KgRoles IN
               \E i \in 1..2 : AllowedT(layer, R[i], text) /\ ~AllowedT(layer, R[i + 1], text) }
\* a graph viewer never permits a statement that changes a graph; a global viewer never
\* permits a system-level change; viewer+viewer never permits any change at all
ViewerBad == { text \in Texts :
                 \/ (KindOf(text) \in MutatingData /\ AllowedT("kg", "viewer", text))
                 \/ (KindOf(text) \in MutatingSystem /\ AllowedT("global", "viewer", text))
                 \/ (KindOf(text) \in MutatingData \cup MutatingSystem
                       /\ AllowedT("global", "viewer", text) /\ AllowedT("kg", "viewer", text)) }
AdminBad == { text \in Texts : KindOf(text) \in AdminOnlyKinds
                               /\ (AllowedT("global", "viewer", text) \/ AllowedT("global", "editor", text)) }
ReadOnlyKinds == { "Query", "SessionRule", "Fact", "KgShow", "KgList", "KgUse", "RelList", "RelDescribe", "RuleList", "RuleQuery",
                   "RuleShowDef", "SessionList", "SessionClear", "SessionDrop", "SessionDropName", "IndexList", "IndexStats",
                   "Status", "Debug", "Why", "WhyFull", "WhyNot", "AgentMessage", "AgentStart", "AgentSetup", "AgentExamples",
                   "Help", "Quit", "UserList", "ApiKeyList", "KgAclList" }

\* every kind was dumped and classified
Unknown == { KindOf(t) : t \in Texts } \ (MutatingData \cup MutatingSystem \cup ReadOnlyKinds)

Out(x) == PrintT(ToJson(x))
Init == l = 1
Next == /\ l = 1
        /\ Out(<<"VERDICT", "C28", "monotone", MonoBad = {}, MonoBad>>)
        /\ Out(<<"VERDICT", "C28", "viewer_read_only", ViewerBad = {}, ViewerBad>>)
        /\ Out(<<"VERDICT", "C28", "admin_only", AdminBad = {}, AdminBad>>)
        /\ Out(<<"INFO", Cardinality(Texts), Cardinality({ KindOf(t) : t \in Texts }), Unknown, Rec[1].missing, Rec[1].unparsed>>)
        /\ l' = 2
Spec == Init /\ [][Next]_<<l>>
=============================================================================

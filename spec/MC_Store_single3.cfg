SPECIFICATION Spec
CONSTANTS N = 3
  Mode = "single"
INVARIANT Emit MaintenanceStutters DropFinal KGIsolation
CHECK_DEADLOCK FALSE

--------------------------- MODULE VecIndexTrace ---------------------------
(***************************************************************************)
(* C24 / C25.  Abstract vector index and the trace specification binding   *)
(* it to recorded calls on the real HnswIndex.                             *)
(*   state   live : id -> vector (sequence of small integers), cfg, metric *)
(*   Insert(id, v) adds or replaces, Delete(id) removes, Rebuild(vs)       *)
(*   replaces everything, SaveLoad changes nothing.                        *)
(*   C24  a search returns <= k distinct live ids, distances non-          *)
(*        decreasing and equal to the metric's distance (scaled by 100,    *)
(*        integer inequalities); when |live| <= ef it returns              *)
(*        min(k, |live|) ids and no live id left out is strictly closer    *)
(*        than a returned one                                              *)
(*   C25  after every call: len - tombstones = |live|, the dimension is    *)
(*        the vectors' length, metric and parameters are those given at    *)
(*        creation; save + load succeeds                                   *)
(* Distances of the dot-product metric are only required to be ordered     *)
(* consistently (the statement fixes no sign/normalisation convention).    *)
(***************************************************************************)
EXTENDS Integers, Sequences, FiniteSets, TLC, Json, IOUtils

Rec == ndJsonDeserialize(IOEnv.TRACE)
VARIABLES l, live, cfg
vars == <<l, live, cfg>>

Abs(x) == IF x < 0 THEN -x ELSE x
RECURSIVE SumTo(_, _, _)
SumTo(f(_), n, i) == IF i > n THEN 0 ELSE f(i) + SumTo(f, n, i + 1)
Dot(a, b) == LET F(i) == a[i] * b[i] IN SumTo(F, Len(a), 1)
L1(a, b)  == LET F(i) == Abs(a[i] - b[i]) IN SumTo(F, Len(a), 1)
D2(a, b)  == LET F(i) == (a[i] - b[i]) * (a[i] - b[i]) IN SumTo(F, Len(a), 1)
N2(a)     == Dot(a, a)

\* reported distance d (x100, rounded) matches the metric within one unit
DistOK(m, q, v, d) ==
  CASE m = "manhattan" -> d = 100 * L1(q, v)
    [] m = "euclidean" -> LET t == 10000 * D2(q, v) IN d >= 0 /\ Abs(d * d - t) <= 2 * d + 1
    [] m = "cosine"    -> \* d = 100 (1 - cos) ; c = 100 - d = 100 cos ; c^2 |q|^2 |v|^2 ~ 10^4 dot^2, same sign
                          LET c == 100 - d  p == Dot(q, v)  AB == N2(q) * N2(v) IN
                          \/ AB = 0
                          \/ /\ (p > 0 => c >= -1) /\ (p < 0 => c <= 1)
                             /\ (Abs(c) - 2) * (Abs(c) - 2) * AB <= 10000 * p * p \/ Abs(c) < 2
                             /\ 10000 * p * p <= (Abs(c) + 2) * (Abs(c) + 2) * AB
    [] OTHER -> TRUE

\* x is strictly closer to q than y (exact integer comparison)
CosGreater(q, x, y) ==   \* cos(q,x) > cos(q,y)
  LET px == Dot(q, x)  py == Dot(q, y)  bx == N2(x)  by == N2(y) IN
  IF bx = 0 \/ by = 0 \/ N2(q) = 0 THEN FALSE
  ELSE IF px >= 0 /\ py < 0 THEN TRUE
  ELSE IF px < 0 /\ py >= 0 THEN FALSE
  ELSE IF px >= 0 THEN px * px * by > py * py * bx
  ELSE px * px * by < py * py * bx
Closer(m, q, x, y) ==
  CASE m = "manhattan" -> L1(q, x) < L1(q, y)
    [] m = "euclidean" -> D2(q, x) < D2(q, y)
    [] OTHER -> CosGreater(q, x, y)

ToSetV(s) == { s[i] : i \in DOMAIN s }
IsIntD(d) == d \in Int
Out(x) == PrintT(ToJson(x))
Put(f, k, v) == [x \in DOMAIN f \cup { k } |-> IF x = k THEN v ELSE f[x]]
Del(f, k)    == [x \in DOMAIN f \ { k } |-> f[x]]

ObsOK(o) == /\ o.len - o.tomb = Cardinality(DOMAIN live')
            /\ (DOMAIN live' # {} => \A i \in DOMAIN live' : Len(live'[i]) = o.dim)
            /\ o.metric = cfg'.metric /\ o.m = cfg'.m /\ o.efc = cfg'.efc /\ o.efs = cfg'.efs
StateVerdict(R) == Out(<<"VERDICT", "C25", R.case, l, ObsOK(R.obs),
                         [ev |-> R.ev, len |-> R.obs.len, tomb |-> R.obs.tomb, live |-> Cardinality(DOMAIN live'),
                          dim |-> R.obs.dim]>>)

SearchOK(R) ==
  LET ids == [i \in DOMAIN R.res |-> R.res[i][1]]
      ds  == [i \in DOMAIN R.res |-> R.res[i][2]]
      m   == cfg.metric
      qz  == N2(R.q) = 0 /\ m \in { "cosine", "dotproduct" }
      L   == DOMAIN live
  IN [ok     |-> R.ok,
      ids    |-> /\ \A i, j \in DOMAIN ids : i # j => ids[i] # ids[j]
                 /\ ToSetV(ids) \subseteq L
                 /\ Len(ids) <= R.k,
      order  |-> qz \/ \A i \in DOMAIN ds : \A j \in DOMAIN ds : (i < j /\ IsIntD(ds[i]) /\ IsIntD(ds[j])) => ds[i] <= ds[j],
      dist   |-> qz \/ \A i \in DOMAIN ids : (ids[i] \in L /\ IsIntD(ds[i])) => DistOK(m, R.q, live[ids[i]], ds[i]),
      full   |-> (qz \/ Cardinality(L) > R.ef) \/
                 ( /\ Len(ids) = (IF R.k < Cardinality(L) THEN R.k ELSE Cardinality(L))
                   /\ \A r \in ToSetV(ids) \cap L : \A o \in L \ ToSetV(ids) : ~Closer(m, R.q, live[o], live[r]) )]

Next ==
  /\ l <= Len(Rec)
  /\ LET R == Rec[l] IN
     CASE R.ev = "new"      -> /\ live' = [x \in {} |-> <<>>]
                               /\ cfg' = [metric |-> R.obs.metric, m |-> R.obs.m, efc |-> R.obs.efc, efs |-> R.obs.efs]
                               /\ StateVerdict(R)
       [] R.ev = "insert"   -> /\ live' = IF R.ok THEN Put(live, R.id, R.vec) ELSE live
                               /\ UNCHANGED cfg /\ StateVerdict(R)
       [] R.ev = "delete"   -> /\ live' = Del(live, R.id) /\ UNCHANGED cfg /\ StateVerdict(R)
       [] R.ev = "rebuild"  -> /\ live' = IF R.ok THEN [i \in { R.vs[j][1] : j \in DOMAIN R.vs } |->
                                                          R.vs[CHOOSE j \in DOMAIN R.vs : R.vs[j][1] = i][2]]
                                          ELSE live
                               /\ UNCHANGED cfg /\ StateVerdict(R)
       [] R.ev = "saveload" -> /\ UNCHANGED <<live, cfg>>
                               /\ Out(<<"VERDICT", "C25", R.case, l, R.ok /\ ObsOK(R.obs), [ev |-> R.ev, ok |-> R.ok]>>)
       [] R.ev = "search"   -> /\ UNCHANGED <<live, cfg>>
                               /\ LET S == SearchOK(R) IN
                                  Out(<<"VERDICT", "C24", R.case, l, S.ok /\ S.ids /\ S.order /\ S.dist /\ S.full,
                                        [ev |-> R.ev, ok |-> S.ok, ids |-> S.ids, order |-> S.order, dist |-> S.dist, full |-> S.full,
                                         live |-> Cardinality(DOMAIN live), k |-> R.k, ef |-> R.ef, got |-> Len(R.res)]>>)
  /\ l' = l + 1
Init == l = 1 /\ live = [x \in {} |-> <<>>] /\ cfg = [metric |-> "", m |-> 0, efc |-> 0, efs |-> 0]
Spec == Init /\ [][Next]_vars
Consumed == TLCGet("stats").diameter = Len(Rec) + 1 \/ PrintT(<<"UNCONSUMED", TLCGet("stats").diameter, Len(Rec)>>)
=============================================================================

SPECIFICATION Spec
CONSTANT Steps <- StepsC
INVARIANT Emit
CHECK_DEADLOCK FALSE

SPECIFICATION Spec
CONSTANT Scripts <- ScriptsB
INVARIANT Isolation
INVARIANT Emit
CHECK_DEADLOCK FALSE

SPECIFICATION Spec
CONSTANT Steps <- StepsF44
INVARIANT Emit
CHECK_DEADLOCK FALSE

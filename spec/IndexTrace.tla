----------------------------- MODULE IndexTrace -----------------------------
(***************************************************************************)
(* C36.  Abstract machines for the probabilistic and the hash index and    *)
(* the trace specification that binds them to recorded calls on the real   *)
(* BloomFilter / HashIndex.                                                *)
(*   bloom:  inserted = set of keys; Query(k) must answer TRUE for every   *)
(*           k in inserted (no false negative), whatever the filter size   *)
(*   hash :  stored = the tuples in insertion order, duplicates kept (the  *)
(*           index is a multiset: a tuple inserted twice and removed once  *)
(*           is still there once); Lookup(key) through get, get_with_bloom *)
(*           and probe returns exactly the stored tuples with that key,    *)
(*           each as often as it is stored; might_contain_key is TRUE      *)
(*           whenever there is one; remove answers whether it removed      *)
(***************************************************************************)
EXTENDS Integers, Sequences, FiniteSets, TLC, Json, IOUtils

Rec == ndJsonDeserialize(IOEnv.TRACE)
VARIABLES l, inserted, stored, cols, alive
vars == <<l, inserted, stored, cols, alive>>
ToSetI(s) == { s[i] : i \in DOMAIN s }
\* sequences as multisets
Count(s, x) == Cardinality({ i \in DOMAIN s : s[i] = x })
SameBag(a, b) == \A x \in ToSetI(a) \cup ToSetI(b) : Count(a, x) = Count(b, x)
RemoveOne(s, x) == IF x \notin ToSetI(s) THEN s
                   ELSE LET i == CHOOSE i \in DOMAIN s : s[i] = x /\ \A j \in 1..(i - 1) : s[j] # x
                        IN [j \in 1..(Len(s) - 1) |-> IF j < i THEN s[j] ELSE s[j + 1]]
Key(t) == [i \in DOMAIN cols |-> t[cols[i]]]
Out(x) == PrintT(ToJson(x))

Next ==
  /\ l <= Len(Rec)
  /\ LET R == Rec[l] IN
     CASE R.ev = "bloom_new"    -> /\ inserted' = {} /\ alive' = R.ok /\ UNCHANGED <<stored, cols>>
                                   /\ Out(<<"VERDICT", "C36", R.case, l, R.ok, [ev |-> R.ev, bits |-> R.bits, hashes |-> R.hashes]>>)
       [] R.ev = "bloom_insert" -> /\ inserted' = inserted \cup { R.key } /\ UNCHANGED <<stored, cols, alive>>
                                   /\ Out(<<"VERDICT", "C36", R.case, l, R.ok, [ev |-> R.ev]>>)
       [] R.ev = "bloom_clear"  -> /\ inserted' = {} /\ UNCHANGED <<stored, cols, alive>>
       [] R.ev = "bloom_query"  -> /\ UNCHANGED <<inserted, stored, cols, alive>>
                                   /\ Out(<<"VERDICT", "C36", R.case, l, R.ok /\ (R.key \in inserted => R.res),
                                            [ev |-> R.ev, member |-> R.key \in inserted, res |-> R.res]>>)
       [] R.ev = "hi_new"       -> /\ stored' = <<>> /\ cols' = R.cols /\ UNCHANGED <<inserted, alive>>
       [] R.ev = "hi_insert"    -> /\ stored' = Append(stored, R.t) /\ UNCHANGED <<inserted, cols, alive>>
       [] R.ev = "hi_remove"    -> /\ stored' = RemoveOne(stored, R.t) /\ UNCHANGED <<inserted, cols, alive>>
                                   /\ Out(<<"VERDICT", "C36", R.case, l, R.res = (R.t \in ToSetI(stored)),
                                            [ev |-> R.ev, res |-> R.res, present |-> R.t \in ToSetI(stored)]>>)       [] R.ev = "hi_build"     -> /\ stored' = R.ts /\ UNCHANGED <<inserted, cols, alive>>
       [] R.ev = "hi_lookup"    -> /\ UNCHANGED <<inserted, stored, cols, alive>>
                                   /\ LET want == SelectSeq(stored, LAMBDA t : Key(t) = R.key) IN
                                      Out(<<"VERDICT", "C36", R.case, l,
                                            /\ SameBag(R.get, want) /\ SameBag(R.get_bloom, want) /\ SameBag(R.probe, want)
                                            /\ (want # <<>> => R.might)
                                            /\ R.len = Len(stored),
                                            [ev |-> R.ev, want |-> Len(want), stored |-> Len(stored), len |-> R.len, get |-> Len(R.get),
                                             bloom |-> Len(R.get_bloom), probe |-> Len(R.probe), might |-> R.might]>>)
  /\ l' = l + 1
Init == l = 1 /\ inserted = {} /\ stored = <<>> /\ cols = <<1>> /\ alive = TRUE
Spec == Init /\ [][Next]_vars
Consumed == TLCGet("stats").diameter = Len(Rec) + 1 \/ PrintT(<<"UNCONSUMED", TLCGet("stats").diameter, Len(Rec)>>)
=============================================================================

----------------------------- MODULE IndexTrace -----------------------------
(***************************************************************************)
(* C36.  Abstract machines for the probabilistic and the hash index and    *)
(* the trace specification that binds them to recorded calls on the real   *)
(* BloomFilter / HashIndex.                                                *)
(*   bloom:  inserted = set of keys; Query(k) must answer TRUE for every   *)
(*           k in inserted (no false negative), whatever the filter size   *)
(*   hash :  stored = set of tuples; Lookup(key) through get, get_with_    *)
(*           bloom and probe returns exactly { t in stored : Key(t) = key } *)
(*           and might_contain_key is TRUE whenever that set is non-empty  *)
(***************************************************************************)
EXTENDS Integers, Sequences, FiniteSets, TLC, Json, IOUtils

Rec == ndJsonDeserialize(IOEnv.TRACE)
VARIABLES l, inserted, stored, cols, alive
vars == <<l, inserted, stored, cols, alive>>
ToSetI(s) == { s[i] : i \in DOMAIN s }
Key(t) == [i \in DOMAIN cols |-> t[cols[i]]]
Out(x) == PrintT(ToJson(x))

Next ==
  /\ l <= Len(Rec)
  /\ LET R == Rec[l] IN
     CASE R.ev = "bloom_new"    -> /\ inserted' = {} /\ alive' = R.ok /\ UNCHANGED <<stored, cols>>
                                   /\ Out(<<"VERDICT", "C36", R.case, l, R.ok, [ev |-> R.ev, bits |-> R.bits, hashes |-> R.hashes]>>)
       [] R.ev = "bloom_insert" -> /\ inserted' = inserted \cup { R.key } /\ UNCHANGED <<stored, cols, alive>>
                                   /\ Out(<<"VERDICT", "C36", R.case, l, R.ok, [ev |-> R.ev]>>)
       [] R.ev = "bloom_clear"  -> /\ inserted' = {} /\ UNCHANGED <<stored, cols, alive>>
       [] R.ev = "bloom_query"  -> /\ UNCHANGED <<inserted, stored, cols, alive>>
                                   /\ Out(<<"VERDICT", "C36", R.case, l, R.ok /\ (R.key \in inserted => R.res),
                                            [ev |-> R.ev, member |-> R.key \in inserted, res |-> R.res]>>)
       [] R.ev = "hi_new"       -> /\ stored' = {} /\ cols' = R.cols /\ UNCHANGED <<inserted, alive>>
       [] R.ev = "hi_insert"    -> /\ stored' = stored \cup { R.t } /\ UNCHANGED <<inserted, cols, alive>>
       [] R.ev = "hi_remove"    -> /\ stored' = stored \ { R.t } /\ UNCHANGED <<inserted, cols, alive>>
                                   /\ Out(<<"VERDICT", "C36", R.case, l, R.res = (R.t \in stored), [ev |-> R.ev]>>)
       [] R.ev = "hi_build"     -> /\ stored' = ToSetI(R.ts) /\ UNCHANGED <<inserted, cols, alive>>
       [] R.ev = "hi_lookup"    -> /\ UNCHANGED <<inserted, stored, cols, alive>>
                                   /\ LET want == { t \in stored : Key(t) = R.key } IN
                                      Out(<<"VERDICT", "C36", R.case, l,
                                            /\ ToSetI(R.get) = want /\ ToSetI(R.get_bloom) = want /\ ToSetI(R.probe) = want
                                            /\ (want # {} => R.might),
                                            [ev |-> R.ev, want |-> Cardinality(want), get |-> Len(R.get),
                                             bloom |-> Len(R.get_bloom), probe |-> Len(R.probe), might |-> R.might]>>)
  /\ l' = l + 1
Init == l = 1 /\ inserted = {} /\ stored = {} /\ cols = <<1>> /\ alive = TRUE
Spec == Init /\ [][Next]_vars
Consumed == TLCGet("stats").diameter = Len(Rec) + 1 \/ PrintT(<<"UNCONSUMED", TLCGet("stats").diameter, Len(Rec)>>)
=============================================================================

-------------------------------- MODULE Auth --------------------------------
(***************************************************************************)
(* Layer A.  Who may do what.  Written from the property statements        *)
(* (C27, C28, C29), not from the code.                                     *)
(*                                                                         *)
(* Global roles  viewer < editor < admin ; graph roles viewer < editor <   *)
(* owner ; "none" = no entry in the access-control list of that graph.     *)
(* An identity is [user, g (global role), acl : graph -> graph role].      *)
(***************************************************************************)
EXTENDS Integers, Sequences, FiniteSets, TLC

INTERNAL == "_internal"

GRank(r) == CASE r = "viewer" -> 1 [] r = "editor" -> 2 [] r = "admin" -> 3 [] OTHER -> 0
KRank(r) == CASE r = "viewer" -> 1 [] r = "editor" -> 2 [] r = "owner" -> 3 [] OTHER -> 0

Acl(id, g) == IF g \in DOMAIN id.acl THEN id.acl[g] ELSE "none"
IsAdmin(id) == id.g = "admin"

\* C27 / C29: reading, writing, dropping a graph
CanRead(id, g)  == IsAdmin(id) \/ (g # INTERNAL /\ GRank(id.g) >= 1 /\ KRank(Acl(id, g)) >= 1)
\* Data operations are decided by the role on the graph (the global role only
\* gates system-level operations such as creating graphs or managing users): a
\* global viewer who was granted editor on a graph may write to that graph.
\* This is the weaker reading of C27/C28 and the one the code documents.
CanWrite(id, g) == IsAdmin(id) \/ (g # INTERNAL /\ GRank(id.g) >= 1 /\ KRank(Acl(id, g)) >= 2)
CanDrop(id, g)  == IsAdmin(id) \/ (g # INTERNAL /\ GRank(id.g) >= 1 /\ KRank(Acl(id, g)) >= 3)
CanCreate(id, g) == IsAdmin(id) \/ (g # INTERNAL /\ GRank(id.g) >= 2)

---------------------------------------------------------------------------
(* C28: laws of a permission matrix.  A matrix is a set of cells            *)
(*   [layer |-> "global"|"kg", role, kind, allowed, mutating, adminonly].  *)
(* `mutating` and `adminonly` are the specification's classification of    *)
(* the statement kind (supplied by the trace from spec/StatementKinds).    *)

Cell(M, layer, role, kind) == CHOOSE c \in M : c.layer = layer /\ c.role = role /\ c.kind = kind
Kinds(M, layer) == { c.kind : c \in { c \in M : c.layer = layer } }
Allowed(M, layer, role, kind) == Cell(M, layer, role, kind).allowed

GlobalRoles == <<"viewer", "editor", "admin">>
KgRoles     == <<"viewer", "editor", "owner">>

Monotone(M) ==
  /\ \A k \in Kinds(M, "global") : \A i \in 1..2 :
        Allowed(M, "global", GlobalRoles[i], k) => Allowed(M, "global", GlobalRoles[i + 1], k)
  /\ \A k \in Kinds(M, "kg") : \A i \in 1..2 :
        Allowed(M, "kg", KgRoles[i], k) => Allowed(M, "kg", KgRoles[i + 1], k)
ViewerReadOnly(M) ==
  /\ \A c \in M : (c.role = "viewer" /\ c.mutating) => ~c.allowed
AdminOnly(M) ==
  /\ \A c \in M : (c.layer = "global" /\ c.adminonly /\ c.role # "admin") => ~c.allowed
MonotoneBad(M) ==
     { <<"global", k, GlobalRoles[i]>> : k \in Kinds(M, "global"), i \in 1..2 } \cap
     { x \in { <<"global", k, GlobalRoles[i]>> : k \in Kinds(M, "global"), i \in 1..2 } :
          \E i \in 1..2 : x[3] = GlobalRoles[i] /\ Allowed(M, "global", GlobalRoles[i], x[2])
                          /\ ~Allowed(M, "global", GlobalRoles[i + 1], x[2]) }
=============================================================================

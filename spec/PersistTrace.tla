---------------------------- MODULE PersistTrace ----------------------------
(***************************************************************************)
(* Layer C.  The scheduling-point logs of the forced interleavings         *)
(* (engine sched) as behaviours of Persist.tla.  One line per event:       *)
(*   [ev |-> "reset", case, pre]      new case; pre = entries appended     *)
(*                                    before the threads start             *)
(*   [ev |-> "wal", case, thr]        thr passed persist.append.after_wal  *)
(*   [ev |-> "buf", case, thr]        ... persist.append.after_buffer      *)
(*   [ev |-> "fstart", case, thr]     ... persist.flush.start (a save, a   *)
(*                                    compaction or a full buffer)         *)
(*   [ev |-> "ret", case, thr]        thr's operation returned (ack)       *)
(*   [ev |-> "image", case, rec]      the data directory was copied here   *)
(*                                    and reopened by the real recovery:   *)
(*                                    rec = ids of the recovered tuples    *)
(* Logged events bind the Persist actions (Atomic = TRUE: "wal" is         *)
(* AppendBoth, "buf" a stutter); which shard a flush writes and when it    *)
(* runs between its start and the thread's next event is not logged: TLC   *)
(* infers it (SilentFlush, at most one per started flush).  An image event *)
(* is enabled only if the observed recovery is exactly Persist!Recovered   *)
(* and Durable holds.  A case is accepted iff some behaviour consumes all  *)
(* its events (CASEOK); Abandon lets the search go on with the next case.  *)
(***************************************************************************)
EXTENDS Persist, Json, IOUtils

Rec == ndJsonDeserialize(IOEnv.TRACE)

VARIABLES l, pend
tvars == <<l, pend, vars>>

\* every thread of every insert-only workload, by workload-qualified name
TWriters == [ flush_race_w1 |-> [id |-> 1, shard |-> "g:r"], flush_race_w2 |-> [id |-> 2, shard |-> "g:r"],
              buffer1_w1 |-> [id |-> 1, shard |-> "g:r"], buffer1_w2 |-> [id |-> 2, shard |-> "g:r"],
              flush_other_w1 |-> [id |-> 1, shard |-> "g:r"], flush_other_w2 |-> [id |-> 2, shard |-> "g:q"],
              compact_other_w1 |-> [id |-> 1, shard |-> "g:r"],
              fill_other_w1 |-> [id |-> 1, shard |-> "g:r"], fill_other_w2 |-> [id |-> 8, shard |-> "h:s"] ]
TShards == { "g:r", "g:q", "h:s" }
TPre == <<>>

Out(x) == PrintT(ToJson(x))
IsEv(e) == l <= Len(Rec) /\ Rec[l].ev = e
LastOfCase == l = Len(Rec) \/ Rec[l + 1].ev = "reset"
Consume == /\ l' = l + 1
           /\ (LastOfCase => Out(<<"CASEOK", Rec[l].case>>))

Reset == /\ IsEv("reset")
         /\ wal' = Rec[l].pre
         /\ buf' = [s \in Shards |-> SelectSeq(Rec[l].pre, LAMBDA e : e.shard = s)]
         /\ batches' = [s \in Shards |-> {}]
         /\ pc' = [w \in W |-> "idle"]
         /\ acked' = Range(Rec[l].pre)
         /\ nflush' = 0 /\ crashed' = FALSE /\ pend' = {}
         /\ Consume

EvWal == /\ IsEv("wal") /\ Rec[l].thr \notin pend
         /\ AppendBoth(Rec[l].thr) /\ UNCHANGED pend /\ Consume
EvBuf == /\ IsEv("buf") /\ Rec[l].thr \notin pend
         /\ pc[Rec[l].thr] = "buffered" /\ UNCHANGED <<pend, vars>> /\ Consume
EvRetWriter == /\ IsEv("ret") /\ Rec[l].thr \in W /\ Rec[l].thr \notin pend
               /\ Ack(Rec[l].thr) /\ UNCHANGED pend /\ Consume
EvRetOther == /\ IsEv("ret") /\ Rec[l].thr \notin W /\ Rec[l].thr \notin pend
              /\ UNCHANGED <<pend, vars>> /\ Consume
EvFStart == /\ IsEv("fstart") /\ Rec[l].thr \notin pend
            /\ pend' = pend \cup { Rec[l].thr } /\ UNCHANGED vars /\ Consume
\* a started flush of some shard runs (also: a started flush that found nothing to write)
SilentFlush == /\ l <= Len(Rec) /\ \E t \in pend :
                  /\ pend' = pend \ { t }
                  /\ \/ \E s \in Shards : Flush(s)
                     \/ UNCHANGED vars
               /\ UNCHANGED l
EvImage == /\ IsEv("image")
           /\ { Rec[l].rec[i] : i \in DOMAIN Rec[l].rec } = Ids(Recovered)
           /\ Durable
           /\ UNCHANGED <<pend, vars>> /\ Consume

\* give the case up (it stays without CASEOK) and go on with the next one
NextReset(i) == IF \E j \in (i + 1)..Len(Rec) : Rec[j].ev = "reset"
                THEN CHOOSE j \in (i + 1)..Len(Rec) : Rec[j].ev = "reset" /\ \A k \in (i + 1)..(j - 1) : Rec[k].ev # "reset"
                ELSE Len(Rec) + 1
Abandon == /\ l <= Len(Rec) /\ Rec[l].ev # "reset"
           /\ l' = NextReset(l) /\ UNCHANGED <<pend, vars>>

TInit == /\ l = 1 /\ pend = {}
         /\ wal = <<>> /\ buf = [s \in Shards |-> <<>>] /\ batches = [s \in Shards |-> {}]
         /\ pc = [w \in W |-> "idle"] /\ acked = {} /\ nflush = 0 /\ crashed = FALSE
TNext == Reset \/ EvWal \/ EvBuf \/ EvRetWriter \/ EvRetOther \/ EvFStart \/ SilentFlush \/ EvImage \/ Abandon
TSpec == TInit /\ [][TNext]_tvars
=============================================================================

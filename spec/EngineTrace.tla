---------------------------- MODULE EngineTrace ----------------------------
(***************************************************************************)
(* Layer C.  Trace specification for executions of the real query engine   *)
(* (IQLEngine).  Each record of the trace is one *case*: a program, a set  *)
(* of base facts and the results the real engine returned for it under a   *)
(* number of runs (optimizer settings, worker counts, row limits, clause   *)
(* orders, engine histories).  The action Judge consumes one record,       *)
(* evaluates the acceptance predicate of every property the record carries *)
(* runs for, and prints one VERDICT tuple per (property, case).            *)
(*                                                                         *)
(*   C01  default / all-off run      = Datalog!Answer   (absolute)         *)
(*   C06  aggregate query heads      = Datalog!Answer   (all settings)     *)
(*   C02  all optimizer settings agree            (relational)             *)
(*   C03  all worker counts agree with one worker (relational)             *)
(*   C04  all clause orders / duplicates / reused engines agree, and the   *)
(*        stored base facts are unchanged by every execution               *)
(*   C07  every successful run is a duplicate-free set of head-arity rows  *)
(*   C08  a limited run is a size-min(N,|A|) subset of the same engine's   *)
(*        unlimited answer                                                 *)
(***************************************************************************)
EXTENDS Datalog, Json, IOUtils

Rec == ndJsonDeserialize(IOEnv.TRACE)

VARIABLE l
vars == <<l>>

Abs(x) == IF x < 0 THEN -x ELSE x

\* An engine value matches a model value.  avg is <<"avg", sum, count>> in the
\* model and a float scaled by 10^3 in the trace: |f*count - 1000*sum| <= count.
\* sum/min/max/count over integers may come back as a float with integral value.
ValMatch(r, m) ==
  IF m[1] = "avg"
  THEN /\ r[1] = "f" \/ r[1] = "i"
       /\ IF r[1] = "f" THEN Abs(r[2] * m[3] - 1000 * m[2]) <= m[3]
                        ELSE r[2] * m[3] = m[2]
  ELSE IF m[1] = "i" /\ r[1] = "f" THEN r[2] = 1000 * m[2]
  ELSE r = m
RowMatch(r, m) == Len(r) = Len(m) /\ \A i \in DOMAIN m : ValMatch(r[i], m[i])
SetMatch(rows, A) == /\ \A i \in DOMAIN rows : \E m \in A : RowMatch(rows[i], m)
                     /\ \A m \in A : \E i \in DOMAIN rows : RowMatch(rows[i], m)

Sel(runs, tags) == SelectSeq(runs, LAMBDA r : r.tag \in tags)
SameRes(a, b)   == a.ok = b.ok /\ ToSet(a.rows) = ToSet(b.rows)
SameCfgBits(a, b) == /\ a.jp = b.jp /\ a.sip = b.sip /\ a.ss = b.ss /\ a.bs = b.bs /\ a.ms = b.ms

AllOff(c) == c.jp = 0 /\ c.sip = 0 /\ c.ss = 0 /\ c.bs = 0 /\ c.ms = 0

Verdict(p, R, ok, info) == PrintT(ToJson(<<"VERDICT", p, R.case, ok, info>>))

Judge(R) ==
  LET DB    == [r \in DOMAIN R.edb |-> ToSet(R.edb[r])]
      A     == ModelW(R.prog, DB, "var")[R.q]
      A2    == ModelW(R.prog, DB, "proj")[R.q]
      def   == Sel(R.runs, {"default"})[1]
      cfgs  == Sel(R.runs, {"default", "cfg"})
      wrk   == Sel(R.runs, {"workers"})
      ord   == Sel(R.runs, {"perm", "dup", "reuse"})
      lim   == Sel(R.runs, {"limit"})
      qagg  == \E i \in DOMAIN R.qa : R.qa[i].t = "agg"
      Good(res) == res.ok /\ (SetMatch(res.rows, A) \/ SetMatch(res.rows, A2))
      badcfg == { i \in DOMAIN cfgs : ~SameRes(cfgs[i].res, def.res) }
      Unlim(c) == LET m == { i \in DOMAIN cfgs : SameCfgBits(cfgs[i].cfg, c) } IN
                  cfgs[CHOOSE i \in m : TRUE].res
      strat == Stratified(R.prog)
      safe  == \A i \in DOMAIN R.prog : Safe(R.prog[i])
  IN
  IF ~(strat /\ safe) THEN PrintT(ToJson(<<"CASE", R.case, 0, strat, safe, qagg>>)) ELSE
  /\ PrintT(ToJson(<<"CASE", R.case, Cardinality(A), strat, safe, qagg>>))
  /\ Verdict("C01", R, \A i \in DOMAIN cfgs : (cfgs[i].tag = "default" \/ AllOff(cfgs[i].cfg)) => Good(cfgs[i].res),
             [ok |-> def.res.ok, got |-> Len(def.res.rows), want |-> Cardinality(A),
              model |-> IF \A i \in DOMAIN cfgs : (cfgs[i].tag = "default" \/ AllOff(cfgs[i].cfg)) => Good(cfgs[i].res)
                        THEN {} ELSE A,
              defgood |-> Good(def.res),
              offgood |-> \A i \in DOMAIN cfgs : AllOff(cfgs[i].cfg) => Good(cfgs[i].res)])
  /\ qagg => Verdict("C06", R, \A i \in DOMAIN cfgs : Good(cfgs[i].res),
                     [bad |-> { cfgs[i].cfg : i \in { i \in DOMAIN cfgs : ~Good(cfgs[i].res) } }])
  /\ Len(cfgs) > 2 => Verdict("C02", R, badcfg = {},
                              [n |-> Cardinality(badcfg),
                               jp |-> { cfgs[i].cfg.jp : i \in badcfg }, sip |-> { cfgs[i].cfg.sip : i \in badcfg },
                               ss |-> { cfgs[i].cfg.ss : i \in badcfg }, bs |-> { cfgs[i].cfg.bs : i \in badcfg },
                               ms |-> { cfgs[i].cfg.ms : i \in badcfg }])
  /\ Len(wrk) > 0 => Verdict("C03", R, \A i \in DOMAIN wrk : SameRes(wrk[i].res, def.res),
                             [w |-> { wrk[i].cfg.workers : i \in { i \in DOMAIN wrk : ~SameRes(wrk[i].res, def.res) } }])
  /\ Len(ord) > 0 => Verdict("C04", R,
                             /\ \A i \in DOMAIN ord : SameRes(ord[i].res, def.res)
                             /\ \A i \in DOMAIN R.runs : R.runs[i].base_after = R.edb,
                             [ans  |-> { ord[i].tag : i \in { i \in DOMAIN ord : ~SameRes(ord[i].res, def.res) } },
                              base |-> { R.runs[i].tag : i \in { i \in DOMAIN R.runs : R.runs[i].base_after # R.edb } }])
  /\ Verdict("C07", R, \A i \in DOMAIN R.runs : R.runs[i].res.ok => WellFormedQ(R.runs[i].res.rows, R.prog, R.q),
             [bad |-> { R.runs[i].tag : i \in { i \in DOMAIN R.runs :
                           R.runs[i].res.ok /\ ~WellFormedQ(R.runs[i].res.rows, R.prog, R.q) } }])
  /\ Len(lim) > 0 => Verdict("C08", R,
                             \A i \in DOMAIN lim :
                                LET u == Unlim(lim[i].cfg) IN
                                (lim[i].res.ok /\ u.ok) => TruncationOK(lim[i].res.rows, lim[i].cfg.limit, ToSet(u.rows)),
                             [bad |-> { lim[i].cfg.limit : i \in { i \in DOMAIN lim :
                                  LET u == Unlim(lim[i].cfg) IN
                                  lim[i].res.ok /\ u.ok
                                  /\ ~TruncationOK(lim[i].res.rows, lim[i].cfg.limit, ToSet(u.rows)) } }])

Init == l = 1
Next == /\ l <= Len(Rec)
        /\ Judge(Rec[l])
        /\ l' = l + 1
Spec == Init /\ [][Next]_vars

\* every record was consumed
Consumed == TLCGet("stats").diameter = Len(Rec) + 1 \/ PrintT(<<"UNCONSUMED", TLCGet("stats").diameter, Len(Rec)>>)
=============================================================================

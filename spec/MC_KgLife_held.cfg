SPECIFICATION Spec
CONSTANT Held = TRUE
CONSTANT Old = {2}
INVARIANT ServedIsDurable
INVARIANT DropFinal
INVARIANT AckedIsServed
CHECK_DEADLOCK FALSE

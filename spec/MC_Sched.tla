------------------------------ MODULE MC_Sched ------------------------------
(***************************************************************************)
(* Every interleaving of a set of threads at their scheduling points.      *)
(* Thread t takes Steps[t] steps (grants); a behaviour is a complete       *)
(* schedule.  TLC enumerates all of them and prints each as one JSON line; *)
(* the harness forces every schedule on real threads (spec -> impl).       *)
(* The meaning of the steps is not modelled here: what the real system did *)
(* under each schedule is judged by SchedTrace against Store.              *)
(***************************************************************************)
EXTENDS Integers, Sequences, FiniteSets, TLC, Json
CONSTANT Steps          \* function thread name -> number of steps, e.g. [w1 |-> 5, w2 |-> 5]
VARIABLES pc, sched
Threads == DOMAIN Steps
Init == pc = [t \in Threads |-> 0] /\ sched = <<>>
Next == \E t \in Threads : /\ pc[t] < Steps[t]
                           /\ pc' = [pc EXCEPT ![t] = @ + 1]
                           /\ sched' = Append(sched, t)
Spec == Init /\ [][Next]_<<pc, sched>>
Done == \A t \in Threads : pc[t] = Steps[t]
Emit == Done => PrintT(ToJson([ev |-> "schedule", sched |-> sched]))
\* constants for the configurations (a .cfg file cannot hold a record)
Steps2x5  == [w1 |-> 5, w2 |-> 5]
Steps2x4  == [w1 |-> 4, w2 |-> 4]
StepsF55  == [F |-> 2, w1 |-> 5, w2 |-> 5]
StepsF44  == [F |-> 2, w1 |-> 4, w2 |-> 4]
StepsQ    == [q |-> 6, w1 |-> 5]
StepsR    == [a |-> 5, b |-> 5, r |-> 2]
StepsD    == [d |-> 2, w |-> 5]
StepsC    == [F |-> 4, w1 |-> 5]
StepsW6   == [w1 |-> 5, w2 |-> 6]
\* with the read-path points on: insert = 7 grants (start + 5 write points + snapshot store),
\* query = 1 more; a second client that only queries
StepsRR   == [c1 |-> 9, c2 |-> 3]
=============================================================================

SPECIFICATION TSpec
CONSTANT Writers <- TWriters
CONSTANT Shards <- TShards
CONSTANT Pre <- TPre
CONSTANT Atomic = TRUE
CONSTANT MaxFlush = 1000
CHECK_DEADLOCK FALSE

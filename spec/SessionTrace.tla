---------------------------- MODULE SessionTrace ----------------------------
(***************************************************************************)
(* Layer C.  Trace specification for C10: requests of several sessions, a  *)
(* persistent writer and request-local programs, executed by the real      *)
(* protocol Handler in a given order.  Records (written by `ilv            *)
(* drive-handler`):                                                        *)
(*   [ev |-> "reset", case, state]                                         *)
(*   [ev |-> "step", case, step, req, res, state]   req.c10 = the Session  *)
(*        operation this request is; state = the whole system observed     *)
(*        after it (facts served per graph, persistent rules, every        *)
(*        session's ephemeral facts and rules)                             *)
(* `sys` is the Session.tla state.  Every step is judged as the transition *)
(*   sys -> Apply10(sys, op)  (unchanged if the request was refused):      *)
(*   state  the observed persistent facts / number of persistent clauses / *)
(*          every session's ephemeral facts / number of its rules are      *)
(*          those of the specification state - so a session request that   *)
(*          leaks into the persistent data or into another session is      *)
(*          rejected here;                                                 *)
(*   answer a query's rows are exactly Session!Ans (persistent data plus   *)
(*          that session's own facts and rules), duplicate-free.           *)
(* `sys` is then re-synchronised to the observation.                       *)
(***************************************************************************)
EXTENDS Session, Json, IOUtils

Rec == ndJsonDeserialize(IOEnv.TRACE)

VARIABLES l, sys
vars == <<l, sys>>

G == "g"
\* observed values are exact-kind tokens (<<"i64", "5">>); the specification's are <<"i", 5>>
ParseI(s) == CHOOSE n \in -1..99 : ToString(n) = s
Lv(v) == IF v[1] = "i64" THEN <<"i", ParseI(v[2])>> ELSE v
LT(tup) == [i \in DOMAIN tup |-> Lv(tup[i])]
LRel(seq) == { LT(seq[i]) : i \in DOMAIN seq }
LMap(o) == NormF([r \in DOMAIN o |-> LRel(o[r])])
ObsPF(st) == IF G \in DOMAIN st.facts THEN LMap(st.facts[G]) ELSE EmptyF
ObsSF(st, x) == LMap(st.sessions[x].facts)
ObsSRn(st, x) == Len(st.sessions[x].rules)
ObsPRn(st) == IF G \in DOMAIN st.rules
              THEN Cardinality(UNION { { <<n, i>> : i \in DOMAIN st.rules[G][n] } : n \in DOMAIN st.rules[G] })
              ELSE 0
Alive(st) == { x \in DOMAIN st.sessions : st.sessions[x].alive }

Out(x) == PrintT(ToJson(x))

Reset == /\ l <= Len(Rec) /\ Rec[l].ev = "reset"
         /\ sys' = [pf |-> ObsPF(Rec[l].state), pr |-> <<>>, sess |-> [x \in {} |-> NewSess]]
         /\ l' = l + 1

Step == /\ l <= Len(Rec) /\ Rec[l].ev = "step"
        /\ LET R == Rec[l]
               op == R.req.c10
               acked == R.res.ok
               want == IF acked THEN Apply10(sys, op) ELSE sys
               st == R.state
               pfOK == NormF(want.pf) = ObsPF(st)
               \* rules are a set of clauses: a clause submitted twice may be kept once or twice
               prOK == ObsPRn(st) \in { Len(want.pr), Cardinality(ToSet(want.pr)) }
               sessOK == /\ DOMAIN want.sess = Alive(st)
                         /\ \A x \in DOMAIN want.sess \cap Alive(st) :
                               /\ NormF(want.sess[x].f) = ObsSF(st, x)
                               /\ ObsSRn(st, x) \in { Len(want.sess[x].r), Cardinality(ToSet(want.sess[x].r)) }
               isQ == op.k \in { "squery", "local" }
               known == IF op.k = "squery" THEN Known(sys, op.sid, op.rel)
                        ELSE IF op.k = "local" THEN LocalKnown(sys, op) ELSE FALSE
               expect == IF op.k = "squery" THEN Ans(sys, op.sid, op.rel)
                         ELSE IF op.k = "local" THEN LocalAns(sys, op) ELSE {}
               got == { R.res.rows[i] : i \in DOMAIN R.res.rows }
               ansOK == (isQ /\ known) => (acked /\ got = expect /\ Cardinality(got) = Len(R.res.rows))
               what == IF ~pfOK THEN "persistent_facts" ELSE IF ~prOK THEN "persistent_rules"
                       ELSE IF ~sessOK THEN "session_state" ELSE IF ~ansOK THEN "answer" ELSE "ok"
           IN /\ Out(<<"VERDICT", "C10", R.case, R.step, pfOK /\ prOK /\ sessOK /\ ansOK,
                       IF what = "ok" THEN [k |-> op.k, what |-> what, acked |-> acked, judged_answer |-> isQ /\ known,
                                            rows |-> Cardinality(got)]
                       ELSE [k |-> op.k, what |-> what, acked |-> acked, judged_answer |-> isQ /\ known,
                             expect |-> expect, got |-> got]>>)
              /\ sys' = [pf |-> ObsPF(st), pr |-> want.pr,
                         sess |-> [x \in Alive(st) |->
                                     [f |-> ObsSF(st, x),
                                      r |-> IF x \in DOMAIN want.sess THEN want.sess[x].r ELSE <<>>]]]
        /\ l' = l + 1

Hang == /\ l <= Len(Rec) /\ Rec[l].ev = "hang"
        /\ Out(<<"VERDICT", "HANG", Rec[l].case, 0, FALSE, [k |-> "hang"]>>)
        /\ UNCHANGED sys
        /\ l' = l + 1

Init == l = 1 /\ sys = InitSys
Next == Reset \/ Step \/ Hang
Spec == Init /\ [][Next]_vars

Consumed == TLCGet("stats").diameter = Len(Rec) + 1 \/ PrintT(<<"UNCONSUMED", TLCGet("stats").diameter, Len(Rec)>>)
=============================================================================

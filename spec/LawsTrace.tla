------------------------------ MODULE LawsTrace ------------------------------
(***************************************************************************)
(* C26.  (i) Lsh: the bucket of a vector is a function of (vector, table,  *)
(* hyperplane count) only.  The specification keeps `memo`, the function   *)
(* observed so far in the case; cache events (clear, resize, prewarm,      *)
(* eviction, concurrent callers) are stutters of it.                       *)
(* (ii) probe sequences: first = bucket, distinct, within n bits, Hamming  *)
(* distance to the bucket non-decreasing.                                  *)
(* (iii) distances: symmetric (equal bit patterns of d(a,b), d(b,a)),      *)
(* non-negative, zero on identical inputs, cosine within [0,2];            *)
(* quantise-then-dequantise within one quantisation step, in integer form: *)
(*   symmetric  |127 x_i - q_i maxabs| <= maxabs ; zero kept ; q in -127..127 *)
(*   linear     |255 (x_i - min) - (q_i + 128) range| <= range ; constant -> 0 *)
(***************************************************************************)
EXTENDS Integers, Sequences, FiniteSets, TLC, Json, IOUtils

Rec == ndJsonDeserialize(IOEnv.TRACE)
VARIABLES l, memo
vars == <<l, memo>>
Out(x) == PrintT(ToJson(x))
Abs(x) == IF x < 0 THEN -x ELSE x

RECURSIVE Pow2(_)
Pow2(n) == IF n = 0 THEN 1 ELSE 2 * Pow2(n - 1)
Bit(x, i) == (x \div Pow2(i)) % 2
RECURSIVE Ham(_, _, _)
Ham(a, b, n) == IF n = 0 THEN 0 ELSE (IF Bit(a, n - 1) # Bit(b, n - 1) THEN 1 ELSE 0) + Ham(a, b, n - 1)

RECURSIVE MaxAbs(_, _)
MaxAbs(x, i) == IF i > Len(x) THEN 0 ELSE LET m == MaxAbs(x, i + 1) IN IF Abs(x[i]) > m THEN Abs(x[i]) ELSE m
RECURSIVE MinOf(_, _)
MinOf(x, i) == IF i = Len(x) THEN x[i] ELSE LET m == MinOf(x, i + 1) IN IF x[i] < m THEN x[i] ELSE m
RECURSIVE MaxOf(_, _)
MaxOf(x, i) == IF i = Len(x) THEN x[i] ELSE LET m == MaxOf(x, i + 1) IN IF x[i] > m THEN x[i] ELSE m

ProbesOK(R) ==
  LET p == R.out IN
  /\ (R.np > 0 => (Len(p) >= 1 /\ p[1] = R.bucket))
  /\ Len(p) <= (IF R.np > Pow2(R.n) THEN Pow2(R.n) ELSE R.np) \/ Len(p) <= R.np
  /\ \A i, j \in DOMAIN p : i # j => p[i] # p[j]
  /\ \A i \in DOMAIN p : p[i] >= 0 /\ p[i] < Pow2(R.n)
  /\ \A i, j \in DOMAIN p : i < j => Ham(p[i], R.bucket, R.n) <= Ham(p[j], R.bucket, R.n)

DistOK(R) ==
  /\ R.ab = R.ba
  /\ R.cab \in { "zero", "pos_le2", "gt2" } \/ (R.f = "cosine" /\ (R.azero \/ R.bzero))
  /\ (R.same /\ ~(R.f = "cosine" /\ R.azero)) => R.cab = "zero"
  /\ ~(R.f = "cosine" /\ R.azero) => R.caa = "zero"
  /\ (R.f = "cosine" /\ ~R.azero /\ ~R.bzero) => R.cab \in { "zero", "pos_le2" }

QuantOK(R) ==
  LET x == R.x  m == MaxAbs(x, 1)
      lo == MinOf(x, 1)  hi == MaxOf(x, 1)  rg == hi - lo IN
  /\ Len(R.sym) = Len(x) /\ Len(R.lin) = Len(x)
  /\ \A i \in DOMAIN x : /\ R.sym[i] >= -127 /\ R.sym[i] <= 127
                         /\ Abs(127 * x[i] - R.sym[i] * m) <= m
                         /\ (x[i] = 0 => R.sym[i] = 0)
  /\ \A i \in DOMAIN x : /\ R.lin[i] >= -128 /\ R.lin[i] <= 127
                         /\ IF rg = 0 THEN R.lin[i] = 0
                            ELSE Abs(255 * (x[i] - lo) - (R.lin[i] + 128) * rg) <= rg

Next ==
  /\ l <= Len(Rec)
  /\ LET R == Rec[l] IN
     CASE R.ev = "case"   -> memo' = [x \in {} |-> 0]
       [] R.ev = "cache"  -> UNCHANGED memo
       [] R.ev = "bucket" -> LET key == <<R.v, R.table, R.n>> IN
                             /\ memo' = IF key \in DOMAIN memo THEN memo ELSE [x \in DOMAIN memo \cup { key } |->
                                                                                  IF x = key THEN R.out ELSE memo[x]]
                             /\ Out(<<"VERDICT", "C26", R.case, l,
                                      /\ (key \in DOMAIN memo => memo[key] = R.out)
                                      /\ R.out >= 0 /\ R.out < Pow2(R.n),
                                      [ev |-> "bucket", seen |-> key \in DOMAIN memo, thr |-> R.thr]>>)
       [] R.ev = "probes" -> /\ UNCHANGED memo
                             /\ Out(<<"VERDICT", "C26", R.case, l, ProbesOK(R), [ev |-> "probes", n |-> R.n, np |-> R.np, got |-> Len(R.out)]>>)
       [] R.ev = "dist"   -> /\ UNCHANGED memo
                             /\ Out(<<"VERDICT", "C26", R.case, l, DistOK(R), [ev |-> "dist", f |-> R.f, cab |-> R.cab, caa |-> R.caa,
                                                                               sym |-> R.ab = R.ba]>>)
       [] R.ev = "quant"  -> /\ UNCHANGED memo
                             /\ Out(<<"VERDICT", "C26", R.case, l, QuantOK(R), [ev |-> "quant"]>>)
  /\ l' = l + 1
Init == l = 1 /\ memo = [x \in {} |-> 0]
Spec == Init /\ [][Next]_vars
Consumed == TLCGet("stats").diameter = Len(Rec) + 1 \/ PrintT(<<"UNCONSUMED", TLCGet("stats").diameter, Len(Rec)>>)
=============================================================================

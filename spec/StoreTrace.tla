----------------------------- MODULE StoreTrace -----------------------------
(***************************************************************************)
(* Layer C.  Trace specification for histories executed on the real        *)
(* StorageEngine (sequential client).  Records:                            *)
(*   [ev |-> "reset", case, state]          initial observed state         *)
(*   [ev |-> "op", case, step, op, ok, ret, state]   one acknowledged or   *)
(*        refused operation and the state observed after it                *)
(*   [ev |-> "crash", case, s0, log, acked, recovered, reopened]           *)
(* The specification state `cur` is the abstract state the implementation  *)
(* was last observed in; each op record is judged as a Store transition    *)
(* from `cur` (Store!StepOK) and `cur` is then re-synchronised to the      *)
(* observation, so every rejected step of a run is reported in one pass.   *)
(* Verdicts carry the property the step belongs to:                        *)
(*   restart steps -> C11 (C12 for value-kind cases), maintenance -> C14,  *)
(*   ins/del       -> C32 (set semantics + report), create/drop/isolation  *)
(*   -> C17, rule/schema durability across restart -> C16, crash -> C13.   *)
(***************************************************************************)
EXTENDS Store, Json, IOUtils

Rec == ndJsonDeserialize(IOEnv.TRACE)

VARIABLES l, cur
vars == <<l, cur>>

\* observed JSON state -> abstract state
RelMap(o)  == [r \in DOMAIN o |-> ToSetS(o[r])]
ConvState(o) ==
  [kgs     |-> ToSetS(o.kgs),
   facts   |-> [g \in DOMAIN o.facts |-> LET m == RelMap(o.facts[g]) IN
                                         [r \in { r \in DOMAIN m : m[r] # {} } |-> m[r]]],
   rules   |-> [g \in DOMAIN o.rules |-> [n \in DOMAIN o.rules[g] |-> ToSetS(o.rules[g][n])]],
   schemas |-> [g \in DOMAIN o.schemas |-> [r \in DOMAIN o.schemas[g] |-> o.schemas[g][r]]]]
NoDupObs(o) == \A g \in DOMAIN o.facts : \A r \in DOMAIN o.facts[g] :
                  \A i, j \in DOMAIN o.facts[g][r] : i # j => o.facts[g][r][i] # o.facts[g][r][j]

PropOf(R) ==
  CASE R.op.k \in Restarts    -> IF R.kind = "values" THEN "C12" ELSE IF R.kind = "catalog" THEN "C16" ELSE "C11"
    [] R.op.k \in Maintenance -> "C14"
    [] R.op.k \in { "ins", "del" } -> IF R.kind = "values" THEN "C12live" ELSE "C32"
    [] R.op.k \in { "create", "drop" } -> "C17"
    [] OTHER -> "C16"

Out(x) == PrintT(ToJson(x))

\* what differs, for the report
DiffInfo(s, t) == [kgs |-> <<s.kgs, t.kgs>>,
                   facts |-> { g \in DOMAIN s.facts \cup DOMAIN t.facts :
                                  Get(s.facts, g, EmptyMap) # Get(t.facts, g, EmptyMap) },
                   rules |-> { g \in DOMAIN s.rules \cup DOMAIN t.rules :
                                  Get(s.rules, g, EmptyMap) # Get(t.rules, g, EmptyMap) },
                   schemas |-> { g \in DOMAIN s.schemas \cup DOMAIN t.schemas :
                                  Get(s.schemas, g, EmptyMap) # Get(t.schemas, g, EmptyMap) }]

ReportOK(R) ==
  IF R.op.k = "ins" /\ R.ok
  THEN LET pre == Rel(cur, R.op.kg, R.op.rel) IN
       R.ret.new = Cardinality(ToSetS(R.op.tuples) \ pre)
  ELSE IF R.op.k = "del" /\ R.ok
  THEN LET pre == Rel(cur, R.op.kg, R.op.rel) IN
       R.ret.deleted = Cardinality(ToSetS(R.op.tuples) \cap pre)
  ELSE TRUE

Reset == /\ l <= Len(Rec) /\ Rec[l].ev = "reset"
         /\ cur' = ConvState(Rec[l].state)
         /\ l' = l + 1

Step == /\ l <= Len(Rec) /\ Rec[l].ev = "op"
        /\ LET R == Rec[l]
               t == ConvState(R.state)
               want == IF R.ok THEN Apply(R.op, cur) ELSE cur
               ok == StepOK(cur, R.op, R.ok, t)
           IN /\ Out(<<"VERDICT", PropOf(R), R.case, R.step, ok /\ NoDupObs(R.state),
                       IF ok THEN [k |-> R.op.k] ELSE [k |-> R.op.k, acked |-> R.ok, diff |-> DiffInfo(want, t)]>>)
              /\ (R.op.k \in {"ins", "del"} /\ R.kind # "values") =>
                    Out(<<"VERDICT", "C32r", R.case, R.step, ReportOK(R), [k |-> R.op.k, ret |-> R.ret]>>)
              /\ (R.ok /\ ~MustFail(R.op, cur)) =>
                    Out(<<"VERDICT", "C17i", R.case, R.step, Isolated(cur, R.op, t), [k |-> R.op.k]>>)
              \* C19: where incremental maintenance is on, a consistent read of every
              \* relation from the incremental engine equals the relation's served facts
              /\ (DOMAIN R.state.incr # {}) =>
                    Out(<<"VERDICT", "C19", R.case, R.step,
                          \A g \in DOMAIN R.state.incr : \A r \in DOMAIN R.state.incr[g] :
                             /\ ToSetS(R.state.incr[g][r]) = Rel(t, g, r)
                             /\ \A i, j \in DOMAIN R.state.incr[g][r] : i # j => R.state.incr[g][r][i] # R.state.incr[g][r][j],
                          [k |-> R.op.k,
                           bad |-> { p \in { p \in (DOMAIN R.state.incr) \X { "r", "s" } : p[2] \in DOMAIN R.state.incr[p[1]] } :
                                       ToSetS(R.state.incr[p[1]][p[2]]) # Rel(t, p[1], p[2]) }]>>)
              /\ cur' = t
        /\ l' = l + 1

Crash == /\ l <= Len(Rec) /\ Rec[l].ev = "crash"
         /\ LET R == Rec[l]
                s0 == ConvState(R.s0)
                ok == R.reopened /\ CrashOK(s0, R.log, R.acked, ConvState(R.recovered))
            IN Out(<<"VERDICT", R.prop, R.case, R.pos, ok,
                     [reopened |-> R.reopened, acked |-> R.acked, attempted |-> Len(R.log), model |-> R.model]>>)
         /\ UNCHANGED cur
         /\ l' = l + 1

\* The implementation never returned on this history (watchdog of the harness):
\* no Store behaviour has an operation without an outcome.
Hang == /\ l <= Len(Rec) /\ Rec[l].ev = "hang"
        /\ Out(<<"VERDICT", "HANG", Rec[l].case, 0, FALSE, [k |-> "hang", kind |-> Rec[l].kind]>>)
        /\ UNCHANGED cur
        /\ l' = l + 1

Init == l = 1 /\ cur = EmptyState
Next == Reset \/ Step \/ Crash \/ Hang
Spec == Init /\ [][Next]_vars

Consumed == TLCGet("stats").diameter = Len(Rec) + 1 \/ PrintT(<<"UNCONSUMED", TLCGet("stats").diameter, Len(Rec)>>)
=============================================================================

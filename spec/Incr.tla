------------------------------- MODULE Incr -------------------------------
(***************************************************************************)
(* Layer B.  One knowledge graph with persistent rules whose answers may   *)
(* be served from materializations / an incremental engine (C18).          *)
(*                                                                         *)
(* State: base facts `pf`, rules `pr` (rule name -> sequence of clause     *)
(* texts, in registration order: `.rule remove <name> <i>` addresses the   *)
(* i-th), and the flag `incr` (incremental maintenance switched on, which  *)
(* in the implementation happens when an index is created; it is lost at a *)
(* restart).  The flag is deliberately *not* an argument of Ans: that is   *)
(* the property.                                                           *)
(***************************************************************************)
EXTENDS Datalog

EmptyF == [r \in {} |-> {}]
GetF(f, r) == IF r \in DOMAIN f THEN f[r] ELSE {}
PutF(f, r, S) == [x \in DOMAIN f \cup {r} |-> IF x = r THEN S ELSE f[x]]
NormF(f) == [r \in { r \in DOMAIN f : f[r] # {} } |-> f[r]]
Range(s) == { s[i] : i \in DOMAIN s }
RemoveAt(s, i) == [j \in 1..(Len(s) - 1) |-> IF j < i THEN s[j] ELSE s[j + 1]]
Without(f, n) == [m \in DOMAIN f \ { n } |-> f[m]]

InitKG == [pf |-> EmptyF, pr |-> [n \in {} |-> <<>>], incr |-> FALSE]

\* operations the implementation must refuse (and then change nothing)
MustFail18(s, op) ==
  CASE op.k = "rremove" -> op.name \notin DOMAIN s.pr \/ op.idx > Len(s.pr[op.name])
    [] op.k = "rdrop"   -> op.name \notin DOMAIN s.pr
    [] OTHER -> FALSE

Apply18(s, op) ==
  CASE op.k = "pins"    -> [s EXCEPT !.pf = PutF(@, op.rel, GetF(@, op.rel) \cup { op.tup })]
    [] op.k = "pdel"    -> [s EXCEPT !.pf = PutF(@, op.rel, GetF(@, op.rel) \ { op.tup })]
    [] op.k = "prule"   -> IF op.name \notin DOMAIN s.pr
                           THEN [s EXCEPT !.pr = [n \in DOMAIN s.pr \cup { op.name } |->
                                                    IF n = op.name THEN << op.text >> ELSE s.pr[n]]]
                           ELSE IF op.text \in Range(s.pr[op.name]) THEN s     \* a clause is registered once
                           ELSE [s EXCEPT !.pr[op.name] = Append(@, op.text)]
    [] op.k = "rremove" -> IF MustFail18(s, op) THEN s
                           ELSE IF Len(s.pr[op.name]) = 1 THEN [s EXCEPT !.pr = Without(@, op.name)]
                           ELSE [s EXCEPT !.pr[op.name] = RemoveAt(@, op.idx)]
    [] op.k = "rdrop"   -> IF MustFail18(s, op) THEN s ELSE [s EXCEPT !.pr = Without(@, op.name)]
    [] op.k = "enable"  -> [s EXCEPT !.incr = TRUE]
    [] op.k = "restart" -> [s EXCEPT !.incr = FALSE]
    [] OTHER -> s

\* all clause texts, in some order (the order of clauses has no meaning)
RECURSIVE Flatten(_)
Flatten(pr) == IF DOMAIN pr = {} THEN <<>>
               ELSE LET n == CHOOSE n \in DOMAIN pr : TRUE IN pr[n] \o Flatten(Without(pr, n))
ClausesOf(pr, asts) == LET ts == Flatten(pr) IN [i \in DOMAIN ts |-> asts[ts[i]]]

\* "a fresh evaluation of the current rules over the current facts"
Ans18(s, asts, q) == LET P == ClausesOf(s.pr, asts) IN
                     IF q \in Rels(P, s.pf) THEN Answer(P, s.pf, q) ELSE {}
\* the relation is defined by a rule or holds a fact, and no clause names a relation that is neither
KnownRel(s, asts, q) == LET P == ClausesOf(s.pr, asts) IN q \in HeadRels(P) \cup DOMAIN NormF(s.pf)
Dangling(s, asts) == LET P == ClausesOf(s.pr, asts) IN
                     \E i \in DOMAIN P : \E r \in BodyRels(P[i]) : r \notin HeadRels(P) \cup DOMAIN NormF(s.pf)
=============================================================================

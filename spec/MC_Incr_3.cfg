SPECIFICATION Spec
CONSTANT Alpha <- Alpha1
CONSTANT Pre <- Pre1
CONSTANT N = 3
INVARIANT FlagInvisible
INVARIANT RefusedChangesNothing
INVARIANT NoEmptyRule
INVARIANT DerivedFollows
INVARIANT Emit
CHECK_DEADLOCK FALSE

SPECIFICATION Spec
CONSTANT Steps <- StepsQ
INVARIANT Emit
CHECK_DEADLOCK FALSE

SPECIFICATION Spec
CONSTANT Held = FALSE
CONSTANT Old = {2}
INVARIANT ServedIsDurable
INVARIANT DropFinal
INVARIANT AckedIsServed
CHECK_DEADLOCK FALSE

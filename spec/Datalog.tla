------------------------------ MODULE Datalog ------------------------------
(***************************************************************************)
(* Layer A.  The meaning of an IQL program: stratified least model of a    *)
(* set of clauses over a set of base facts.  Programs are *data* (the JSON *)
(* shape of the harness's abstract syntax), so the same operators serve    *)
(*   - the exhaustive meta-checks in MC_Datalog (order independence etc.), *)
(*   - the trace specification EngineTrace (oracle for C01..C08, C34),     *)
(*   - KG / Proof (answers of queries, validity of derivations).           *)
(*                                                                         *)
(* Shapes                                                                  *)
(*   value   <<"i", 5>> | <<"s", "a">> | <<"b", TRUE>> | <<"n">>           *)
(*   term    [t |-> "v", n |-> "X"] | [t |-> "c", c |-> value] | [t |-> "_"]*)
(*           | [t |-> "agg", f |-> "count", n |-> "Y"]        (heads only)  *)
(*   expr    term | [t |-> "bin", op |-> "+", l |-> expr, r |-> expr]       *)
(*   literal [k |-> "pos"|"neg", r |-> "e", a |-> Seq(term)]                *)
(*           | [k |-> "cmp", op |-> "<", l |-> expr, r |-> expr]            *)
(*           | [k |-> "asg", v |-> "Y", e |-> expr]                         *)
(*   clause  [h |-> [r |-> "p", a |-> Seq(term)], b |-> Seq(literal)]       *)
(*   program Seq(clause)      database [relname -> SUBSET tuple]            *)
(***************************************************************************)
EXTENDS Integers, Sequences, FiniteSets, TLC

ToSet(s) == { s[i] : i \in DOMAIN s }
Max2(a, b) == IF a >= b THEN a ELSE b

---------------------------------------------------------------------------
(* Relations and dependency structure                                      *)

HeadRels(P)  == { P[i].h.r : i \in DOMAIN P }
BodyAtomIdx(c) == { j \in DOMAIN c.b : c.b[j].k \in {"pos", "neg"} }
BodyRels(c)  == { c.b[j].r : j \in BodyAtomIdx(c) }
Rels(P, DB)  == HeadRels(P) \cup UNION { BodyRels(P[i]) : i \in DOMAIN P } \cup DOMAIN DB

HasAgg(c)    == \E i \in DOMAIN c.h.a : c.h.a[i].t = "agg"

\* Edges head -> body relation.  "strict" edges (negation, aggregation) force
\* the body relation into a strictly lower stratum.
LitEdges(P, i, kinds) == { <<P[i].h.r, P[i].b[j].r>> : j \in { j \in DOMAIN P[i].b : P[i].b[j].k \in kinds } }
PosEdges(P) == UNION { LitEdges(P, i, {"pos"}) : i \in { i \in DOMAIN P : ~HasAgg(P[i]) } }
NegEdges(P) == UNION { LitEdges(P, i, {"neg"}) : i \in DOMAIN P }
StrictEdges(P) == NegEdges(P) \cup UNION { LitEdges(P, i, {"pos", "neg"}) : i \in { i \in DOMAIN P : HasAgg(P[i]) } }
Edges(P) == PosEdges(P) \cup StrictEdges(P)

\* Reach(P)[r] = relations reachable from r along >= 1 dependency edge.
Comp(R, E) == { <<p[1][1], p[2][2]>> : p \in { p \in R \X E : p[1][2] = p[2][1] } }
RECURSIVE ReachIter(_, _)
ReachIter(E, R) == LET R2 == R \cup Comp(R, E) IN IF R2 = R THEN R ELSE ReachIter(E, R2)
Reach(P) == ReachIter(Edges(P), Edges(P))

SameSCC(P, a, b) == a = b \/ (<<a, b>> \in Reach(P) /\ <<b, a>> \in Reach(P))
Recursive(P, r) == <<r, r>> \in Reach(P)

\* No negative (or aggregate) edge inside a strongly connected component.
Stratified(P)    == LET R == Reach(P) IN
                    \A e \in StrictEdges(P) : ~(<<e[2], e[1]>> \in R \/ e[1] = e[2])
\* Recursion through negation only (what C34 talks about).
NegStratified(P) == LET R == Reach(P) IN
                    \A e \in NegEdges(P) : ~(<<e[2], e[1]>> \in R \/ e[1] = e[2])

\* Stratum numbers by relaxation; meaningful only when Stratified(P).
RECURSIVE StratIter(_, _, _)
StratIter(P, s, fuel) ==
  LET s2 == [r \in DOMAIN s |->
               LET lo  == { s[e[2]]     : e \in { e \in PosEdges(P)    : e[1] = r } }
                   hi  == { s[e[2]] + 1 : e \in { e \in StrictEdges(P) : e[1] = r } }
                   all == lo \cup hi \cup { s[r] }
               IN CHOOSE m \in all : \A x \in all : m >= x ]
  IN IF s2 = s \/ fuel = 0 THEN s2 ELSE StratIter(P, s2, fuel - 1)
StratumOf(P, DB) == LET R == Rels(P, DB) IN
                    StratIter(P, [r \in R |-> 0], Cardinality(R) + 1)

---------------------------------------------------------------------------
(* Expressions (integers only; the generators keep results inside 32 bit)  *)

IsInt(v) == v[1] = "i"
IntOf(v) == v[2]
MkInt(n) == <<"i", n>>

RECURSIVE Eval(_, _)
Eval(e, s) ==
  CASE e.t = "v"   -> s[e.n]
    [] e.t = "c"   -> e.c
    [] e.t = "bin" -> LET a == IntOf(Eval(e.l, s)) b == IntOf(Eval(e.r, s)) IN
                      CASE e.op = "+" -> MkInt(a + b)
                        [] e.op = "-" -> MkInt(a - b)
                        [] e.op = "*" -> MkInt(a * b)

RECURSIVE ExprVars(_)
ExprVars(e) ==
  CASE e.t = "v"   -> { e.n }
    [] e.t = "bin" -> ExprVars(e.l) \cup ExprVars(e.r)
    [] OTHER       -> {}

CmpHolds(op, a, b) ==
  CASE op = "="  -> a = b
    [] op = "!=" -> a # b
    [] op = "<"  -> IntOf(a) <  IntOf(b)
    [] op = "<=" -> IntOf(a) <= IntOf(b)
    [] op = ">"  -> IntOf(a) >  IntOf(b)
    [] op = ">=" -> IntOf(a) >= IntOf(b)

---------------------------------------------------------------------------
(* Satisfying valuations of a clause body                                  *)

\* wm = "var": every wildcard occurrence is a variable of its own (it takes
\* part in "distinct body valuations"); wm = "proj": wildcards are projected
\* away.  The two only differ for count/sum/avg heads.
WildName(j, i) == "_" \o ToString(j) \o "_" \o ToString(i)

RECURSIVE MatchFrom(_, _, _, _, _, _)
MatchFrom(a, tup, s, i, j, wm) ==
  IF i > Len(a) THEN { s }
  ELSE LET x == a[i] IN
       CASE x.t = "c" -> IF x.c = tup[i] THEN MatchFrom(a, tup, s, i + 1, j, wm) ELSE {}
         [] x.t = "_" -> IF wm = "var"
                         THEN MatchFrom(a, tup, s @@ (WildName(j, i) :> tup[i]), i + 1, j, wm)
                         ELSE MatchFrom(a, tup, s, i + 1, j, wm)
         [] x.t = "v" -> IF x.n \in DOMAIN s
                         THEN (IF s[x.n] = tup[i] THEN MatchFrom(a, tup, s, i + 1, j, wm) ELSE {})
                         ELSE MatchFrom(a, tup, s @@ (x.n :> tup[i]), i + 1, j, wm)

Empty == [x \in {} |-> 0]

\* Join the positive atoms, left to right.
RECURSIVE JoinPos(_, _, _, _, _)
JoinPos(c, I, S, j, wm) ==
  IF j > Len(c.b) THEN S
  ELSE IF c.b[j].k # "pos" THEN JoinPos(c, I, S, j + 1, wm)
  ELSE LET lit == c.b[j]
           T   == { t \in I[lit.r] : Len(t) = Len(lit.a) }
       IN JoinPos(c, I, UNION { UNION { MatchFrom(lit.a, t, s, 1, j, wm) : t \in T } : s \in S },
                  j + 1, wm)

\* Close under assignments V = expr whose right-hand side is bound (any order).
RECURSIVE CloseAsg(_, _, _)
CloseAsg(c, s, fuel) ==
  LET ready == { j \in DOMAIN c.b : c.b[j].k = "asg" /\ c.b[j].v \notin DOMAIN s
                                     /\ ExprVars(c.b[j].e) \subseteq DOMAIN s }
  IN IF ready = {} \/ fuel = 0 THEN s
     ELSE LET j == CHOOSE j \in ready : \A k \in ready : j <= k
          IN CloseAsg(c, s @@ (c.b[j].v :> Eval(c.b[j].e, s)), fuel - 1)

\* An assignment to an already bound variable is an equality test.
AsgOK(c, s)  == \A j \in DOMAIN c.b : c.b[j].k = "asg" =>
                   /\ c.b[j].v \in DOMAIN s
                   /\ ExprVars(c.b[j].e) \subseteq DOMAIN s
                   /\ s[c.b[j].v] = Eval(c.b[j].e, s)
CmpOK(c, s)  == \A j \in DOMAIN c.b : c.b[j].k = "cmp" =>
                   CmpHolds(c.b[j].op, Eval(c.b[j].l, s), Eval(c.b[j].r, s))
NegMatches(lit, s, I) ==
  \E t \in I[lit.r] : Len(t) = Len(lit.a) /\ MatchFrom(lit.a, t, s, 1, 0, "proj") # {}
NegOK(c, s, I) == \A j \in DOMAIN c.b : c.b[j].k = "neg" => ~NegMatches(c.b[j], s, I)

Sat(c, I, wm) ==
  { s \in { CloseAsg(c, s0, Len(c.b)) : s0 \in JoinPos(c, I, { Empty }, 1, wm) } :
      AsgOK(c, s) /\ CmpOK(c, s) /\ NegOK(c, s, I) }

---------------------------------------------------------------------------
(* Heads                                                                   *)

InstTerm(x, s) == IF x.t = "c" THEN x.c ELSE s[x.n]
Inst(a, s)     == [i \in DOMAIN a |-> InstTerm(a[i], s)]

RECURSIVE SumVar(_, _)
SumVar(G, n) == IF G = {} THEN 0
                ELSE LET x == CHOOSE x \in G : TRUE IN IntOf(x[n]) + SumVar(G \ { x }, n)

GroupKey(c, s) == [i \in { i \in DOMAIN c.h.a : c.h.a[i].t # "agg" } |-> InstTerm(c.h.a[i], s)]

\* avg is represented exactly as <<"avg", sum, count>>; the trace spec
\* compares it with the engine's float through an integer inequality.
AggVal(f, n, G) ==
  LET vals == { s[n] : s \in G } IN
  CASE f = "count"          -> MkInt(Cardinality(G))
    [] f = "count_distinct" -> MkInt(Cardinality(vals))
    [] f = "sum"            -> MkInt(SumVar(G, n))
    [] f = "min"            -> CHOOSE v \in vals : \A w \in vals : IntOf(v) <= IntOf(w)
    [] f = "max"            -> CHOOSE v \in vals : \A w \in vals : IntOf(v) >= IntOf(w)
    [] f = "avg"            -> <<"avg", SumVar(G, n), Cardinality(G)>>

DeriveAgg(c, S) ==
  LET keys == { GroupKey(c, s) : s \in S } IN
  { LET G == { s \in S : GroupKey(c, s) = k } IN
    [i \in DOMAIN c.h.a |-> IF c.h.a[i].t = "agg" THEN AggVal(c.h.a[i].f, c.h.a[i].n, G)
                            ELSE k[i]] : k \in keys }

Derive(c, I, wm) == IF HasAgg(c) THEN DeriveAgg(c, Sat(c, I, wm))
                    ELSE { Inst(c.h.a, s) : s \in Sat(c, I, "proj") }

---------------------------------------------------------------------------
(* Immediate consequence, least fixpoint, stratified model                 *)

Tp(P, idx, I, wm) ==
  [r \in DOMAIN I |-> I[r] \cup UNION { Derive(P[i], I, wm) : i \in { i \in idx : P[i].h.r = r } }]

RECURSIVE Lfp(_, _, _, _)
Lfp(P, idx, I, wm) == LET J == Tp(P, idx, I, wm) IN IF J = I THEN I ELSE Lfp(P, idx, J, wm)

\* Number of Tp rounds until the fixpoint (used by Proof!DerivDepth).
RECURSIVE Stages(_, _, _, _, _)
Stages(P, idx, I, wm, acc) ==
  LET J == Tp(P, idx, I, wm) IN IF J = I THEN acc ELSE Stages(P, idx, J, wm, Append(acc, J))

BaseDB(P, DB) == [r \in Rels(P, DB) |-> IF r \in DOMAIN DB THEN DB[r] ELSE {}]

RECURSIVE FoldStrata(_, _, _, _, _, _)
FoldStrata(P, st, I, k, top, wm) ==
  IF k > top THEN I
  ELSE FoldStrata(P, st, Lfp(P, { i \in DOMAIN P : st[P[i].h.r] = k }, I, wm), k + 1, top, wm)

ModelW(P, DB, wm) ==
  LET st  == StratumOf(P, DB)
      top == IF DOMAIN st = {} THEN 0 ELSE CHOOSE m \in { st[r] : r \in DOMAIN st } :
                                                 \A r \in DOMAIN st : m >= st[r]
  IN FoldStrata(P, st, BaseDB(P, DB), 0, top, wm)

Model(P, DB)     == ModelW(P, DB, "var")
Answer(P, DB, q) == Model(P, DB)[q]

---------------------------------------------------------------------------
(* Well-formedness (safety / range restriction), as the property assumes   *)

PosVars(c) == UNION { { c.b[j].a[i].n : i \in { i \in DOMAIN c.b[j].a : c.b[j].a[i].t = "v" } } :
                        j \in { j \in DOMAIN c.b : c.b[j].k = "pos" } }
RECURSIVE BoundVars(_, _, _)
BoundVars(c, V, fuel) ==
  LET V2 == V \cup { c.b[j].v : j \in { j \in DOMAIN c.b : c.b[j].k = "asg"
                                           /\ ExprVars(c.b[j].e) \subseteq V } }
  IN IF V2 = V \/ fuel = 0 THEN V ELSE BoundVars(c, V2, fuel - 1)
HeadVars(c) == { c.h.a[i].n : i \in { i \in DOMAIN c.h.a : c.h.a[i].t \in {"v", "agg"} } }
Safe(c) ==
  LET B == BoundVars(c, PosVars(c), Len(c.b)) IN
  /\ HeadVars(c) \subseteq B
  /\ \A j \in DOMAIN c.b :
       CASE c.b[j].k = "neg" -> \A i \in DOMAIN c.b[j].a : c.b[j].a[i].t = "v" => c.b[j].a[i].n \in B
         [] c.b[j].k = "cmp" -> ExprVars(c.b[j].l) \cup ExprVars(c.b[j].r) \subseteq B
         [] OTHER            -> TRUE

---------------------------------------------------------------------------
(* Result-shape predicates used by the trace specifications                *)

NoDup(rows)              == \A i, j \in DOMAIN rows : i # j => rows[i] # rows[j]
AllArity(rows, n)        == \A i \in DOMAIN rows : Len(rows[i]) = n
HeadConstsKept(rows, ha) == \A i \in DOMAIN rows : \A k \in DOMAIN ha :
                               (ha[k].t = "c" /\ k <= Len(rows[i])) => rows[i][k] = ha[k].c
WellFormed(rows, ha)     == NoDup(rows) /\ AllArity(rows, Len(ha)) /\ HeadConstsKept(rows, ha)
\* For a relation defined by several clauses: every row has the arity of the
\* head and reproduces the head constants of at least one of its clauses.
RowFitsHead(row, ha)     == Len(row) = Len(ha) /\ \A k \in DOMAIN ha : ha[k].t = "c" => row[k] = ha[k].c
WellFormedQ(rows, P, q)  == /\ NoDup(rows)
                            /\ \A i \in DOMAIN rows :
                                 \E j \in { j \in DOMAIN P : P[j].h.r = q } : RowFitsHead(rows[i], P[j].h.a)
\* C08: rows is a duplicate-free subset of A of size min(N, |A|).
TruncationOK(rows, N, A) == /\ NoDup(rows)
                            /\ ToSet(rows) \subseteq A
                            /\ Len(rows) = (IF N < Cardinality(A) THEN N ELSE Cardinality(A))
=============================================================================

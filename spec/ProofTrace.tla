----------------------------- MODULE ProofTrace -----------------------------
(***************************************************************************)
(* C21 / C22 / C23.  Validity of the proof DAGs the real `.why` returns    *)
(* and truthfulness of `.why_not`, judged against the stratified least     *)
(* model of the same program (Datalog.tla).                                *)
(*                                                                         *)
(* Record: [prog, edb, q, answers, why: Seq([t, ok, trees]), whynot: ...]  *)
(* tree  : [roots: Seq(id), nodes: [id -> node]]                           *)
(* node  : [kind, conclusion: [pred, args], source, bindings, children,    *)
(*          why_not: [blocker: [type, predicate_index, ...], ...]]         *)
(* Proof values are raw integers; the model's are tagged <<"i", n>>.       *)
(*                                                                         *)
(* ValidNode (C21)                                                         *)
(*   fact      conclusion in the model (and in the base facts if its       *)
(*             source says "edb")                                          *)
(*   negation  the concluded instance is absent from the model             *)
(*   rule      some clause of the concluded relation and some satisfying   *)
(*             valuation of it (extending the node's bindings) instantiate *)
(*             the head to the conclusion and the positive body atoms, in  *)
(*             order, to the conclusions of the non-negation children;     *)
(*             every child is valid.  (Sat already demands that the        *)
(*             comparisons hold and the negated instances are absent.)     *)
(* Complete (C22): no truncated node and no "derived" fact leaf reachable   *)
(* from the root.                                                          *)
(***************************************************************************)
EXTENDS Datalog, Json, IOUtils

Rec == ndJsonDeserialize(IOEnv.TRACE)
VARIABLE l
Out(x) == PrintT(ToJson(x))
Tag(x) == <<"i", x>>
TagT(args) == [i \in DOMAIN args |-> Tag(args[i])]
HasF(n, f) == f \in DOMAIN n
Children(n) == IF HasF(n, "children") THEN n.children ELSE <<>>

Agrees(s, n) == ~HasF(n, "bindings") \/
                \A v \in DOMAIN n.bindings \cap DOMAIN s : s[v] = Tag(n.bindings[v])

PosAtoms(c) == SelectSeq(c.b, LAMBDA x : x.k = "pos")
NegRels(c) == { c.b[j].r : j \in { j \in DOMAIN c.b : c.b[j].k = "neg" } }

RuleStep(T, n, c, M) ==
  LET kids == Children(n)
      posk == SelectSeq(kids, LAMBDA k : T.nodes[k].kind # "negation")
      negk == SelectSeq(kids, LAMBDA k : T.nodes[k].kind = "negation")
      pa   == PosAtoms(c)
  IN /\ Len(posk) = Len(pa)
     /\ \A i \in DOMAIN negk : T.nodes[negk[i]].conclusion.pred \in NegRels(c)
     /\ \E s \in Sat(c, M, "proj") :
          /\ Agrees(s, n)
          /\ Inst(c.h.a, s) = TagT(n.conclusion.args)
          /\ \A i \in DOMAIN pa :
                /\ T.nodes[posk[i]].conclusion.pred = pa[i].r
                /\ Len(T.nodes[posk[i]].conclusion.args) = Len(pa[i].a)
                /\ \A j \in DOMAIN pa[i].a :
                      pa[i].a[j].t # "_" => InstTerm(pa[i].a[j], s) = Tag(T.nodes[posk[i]].conclusion.args[j])

RECURSIVE ValidNode(_, _, _, _, _, _)
ValidNode(T, id, P, DB, M, fuel) ==
  IF fuel = 0 \/ id \notin DOMAIN T.nodes THEN FALSE
  ELSE LET n == T.nodes[id]
           pred == n.conclusion.pred
           concl == TagT(n.conclusion.args) IN
       CASE n.kind = "fact" -> /\ pred \in DOMAIN M /\ concl \in M[pred]
                               /\ (HasF(n, "source") /\ n.source = "edb") => (pred \in DOMAIN DB /\ concl \in DB[pred])
         [] n.kind = "negation" -> pred \notin DOMAIN M \/ concl \notin M[pred]
         [] n.kind = "rule" -> /\ \E ci \in { i \in DOMAIN P : P[i].h.r = pred } : RuleStep(T, n, P[ci], M)
                               /\ \A i \in DOMAIN Children(n) : ValidNode(T, Children(n)[i], P, DB, M, fuel - 1)
         [] OTHER -> FALSE

RECURSIVE ReachN(_, _, _)
ReachN(T, ids, fuel) ==
  LET next == ids \cup UNION { { Children(T.nodes[i])[k] : k \in DOMAIN Children(T.nodes[i]) } : i \in ids \cap DOMAIN T.nodes }
  IN IF next = ids \/ fuel = 0 THEN ids ELSE ReachN(T, next, fuel - 1)
Complete(T, root) ==
  \A i \in ReachN(T, { root }, 30) \cap DOMAIN T.nodes :
     /\ T.nodes[i].kind # "truncated"
     /\ ~(T.nodes[i].kind = "fact" /\ HasF(T.nodes[i], "source") /\ T.nodes[i].source # "edb")

\* ---- why-not
ApplyTheta(a, n) == [i \in DOMAIN a |-> IF a[i].t = "v" /\ HasF(n, "bindings") /\ a[i].n \in DOMAIN n.bindings
                                        THEN [t |-> "c", c |-> Tag(n.bindings[a[i].n])] ELSE a[i]]
NoMatch(a, S) == \A tup \in S : Len(tup) # Len(a) \/ MatchFrom(a, tup, Empty, 1, 0, "proj") = {}
HeadUnifies(c, t) == \E s \in { MatchFrom(c.h.a, t, Empty, 1, 0, "proj") } : s # {}

\* one per-clause entry: a why_not node carrying the rule's bindings, whose child carries the blocker
BlockerOK(bl, e, c, t, M) ==
  CASE bl.type = "body_atom_failed" ->
           /\ bl.predicate_index + 1 \in DOMAIN c.b
           /\ LET lit == c.b[bl.predicate_index + 1] IN
              /\ lit.k = "pos"
              /\ NoMatch(ApplyTheta(lit.a, e), IF lit.r \in DOMAIN M THEN M[lit.r] ELSE {})
    [] bl.type = "head_unification_failed" -> ~HeadUnifies(c, t)
    [] OTHER -> TRUE
\* the blocker is carried by the entry itself or by its first child
BlockerHolds(T, e, c, t, M) ==
  IF HasF(e, "why_not") THEN BlockerOK(e.why_not.blocker, e, c, t, M)
  ELSE LET kids == Children(e) IN
       IF Len(kids) = 0 THEN FALSE
       ELSE LET b == T.nodes[kids[1]] IN
            IF ~HasF(b, "why_not") THEN TRUE ELSE BlockerOK(b.why_not.blocker, e, c, t, M)

WhyNotOK(R, w, P, M) ==
  LET t == TagT(w.t)
      derived == t \in M[R.q]
      T == w.trees[1]
      root == T.nodes[T.roots[1]]
      entries == Children(root)
      cls == SelectSeq(P, LAMBDA c : c.h.r = R.q)
  IN IF derived
     THEN \* never "every clause is blocked" for a derived tuple
          ~(w.ok /\ Len(w.trees) > 0 /\ root.kind = "why_not" /\ Len(entries) = Len(cls)
                 /\ \A i \in DOMAIN entries : T.nodes[entries[i]].kind = "why_not")
     ELSE /\ w.ok /\ Len(w.trees) > 0
          /\ Len(entries) = Cardinality({ cls[k] : k \in DOMAIN cls })
          \* entries are not necessarily in clause order: each entry's blocker must hold
          \* for some clause of the relation
          /\ \A i \in DOMAIN entries : \E k \in DOMAIN cls : BlockerHolds(T, T.nodes[entries[i]], cls[k], t, M)

Judge(R) ==
  LET DB == [r \in DOMAIN R.edb |-> ToSet(R.edb[r])]
      M  == ModelW(R.prog, DB, "proj")
      strat == Stratified(R.prog) /\ \A i \in DOMAIN R.prog : Safe(R.prog[i])
  IN IF ~strat \/ ~R.setup_ok THEN Out(<<"SKIP", R.case, strat, R.setup_ok>>)
     ELSE /\ \A i \in DOMAIN R.why :
               LET w == R.why[i]  t == TagT(w.t) IN
               IF t \notin M[R.q] THEN Out(<<"SKIP", R.case, "answer not in model (C01)", i>>)
               ELSE LET T == IF Len(w.trees) > 0 THEN w.trees[1] ELSE [roots |-> <<>>, nodes |-> Empty]
                        hasroot == w.ok /\ Len(w.trees) > 0 /\ Len(T.roots) > 0
                        valid == hasroot /\ \A k \in DOMAIN T.roots :
                                   /\ T.roots[k] \in DOMAIN T.nodes
                                   /\ TagT(T.nodes[T.roots[k]].conclusion.args) = t
                                   /\ ValidNode(T, T.roots[k], R.prog, DB, M, 14)
                    IN /\ Out(<<"VERDICT", "C21", R.case, i, valid, [t |-> w.t, hasroot |-> hasroot]>>)
                       /\ Out(<<"VERDICT", "C22", R.case, i, hasroot /\ \A k \in DOMAIN T.roots : Complete(T, T.roots[k]),
                                [t |-> w.t, hasroot |-> hasroot]>>)
          /\ \A i \in DOMAIN R.whynot :
               LET w == R.whynot[i] IN
               Out(<<"VERDICT", "C23", R.case, i, WhyNotOK(R, w, R.prog, M), [t |-> w.t, derived |-> TagT(w.t) \in M[R.q], ok |-> w.ok]>>)

Init == l = 1
Next == /\ l <= Len(Rec)
        /\ IF Rec[l].ev = "proof" THEN Judge(Rec[l]) ELSE Out(<<"VERDICT", "HANG", Rec[l].case, 0, FALSE, [k |-> "hang"]>>)
        /\ l' = l + 1
Spec == Init /\ [][Next]_<<l>>
Consumed == TLCGet("stats").diameter = Len(Rec) + 1 \/ PrintT(<<"UNCONSUMED", TLCGet("stats").diameter, Len(Rec)>>)
=============================================================================

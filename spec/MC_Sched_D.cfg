SPECIFICATION Spec
CONSTANT Steps <- StepsD
INVARIANT Emit
CHECK_DEADLOCK FALSE

------------------------------ MODULE Session ------------------------------
(***************************************************************************)
(* Layer B.  Sessions over one knowledge graph (C10).                      *)
(*                                                                         *)
(* The system holds persistent facts `pf` and persistent rules `pr` of a   *)
(* graph, and for every open session its own ephemeral facts and rules.    *)
(* One request = one action (the granularity at which the WebSocket        *)
(* protocol and the HTTP API serialise a session's statements):            *)
(*   open      a session is created (empty)                                *)
(*   sfact     `r(1)`          ephemeral fact of session sid               *)
(*   sretract  retract an ephemeral fact of session sid                    *)
(*   srule     `d(X) <- ...`   ephemeral rule of session sid               *)
(*   squery    `?d(X)`         query of session sid                        *)
(*   pins/pdel `+r(1)`/`-r(1)` persistent write (any client)               *)
(*   prule     `+p(X) <- ...`  persistent rule                             *)
(*   local     a multi-statement program without session: its facts and    *)
(*             rules live for that request only                            *)
(* A query of session x is answered over  pf \cup facts(x)  with the rules *)
(* pr \o rules(x)  (Datalog!Answer); a request-local program over pf plus  *)
(* its own facts and rules.  Nothing else is visible to it.                *)
(***************************************************************************)
EXTENDS Datalog

EmptyF == [r \in {} |-> {}]
GetF(f, r) == IF r \in DOMAIN f THEN f[r] ELSE {}
PutF(f, r, S) == [x \in DOMAIN f \cup {r} |-> IF x = r THEN S ELSE f[x]]
UnionF(f, g) == [r \in DOMAIN f \cup DOMAIN g |-> GetF(f, r) \cup GetF(g, r)]
NormF(f) == [r \in { r \in DOMAIN f : f[r] # {} } |-> f[r]]

NewSess == [f |-> EmptyF, r |-> <<>>]
InitSys == [pf |-> EmptyF, pr |-> <<>>, sess |-> [x \in {} |-> NewSess]]

SessionOps    == { "sfact", "sretract", "srule", "squery", "local", "open" }
PersistentOps == { "pins", "pdel", "prule" }

\* facts given as a sequence of [rel, tup]
RECURSIVE FactsOf(_, _)
FactsOf(fs, i) == IF i > Len(fs) THEN EmptyF
                  ELSE LET rest == FactsOf(fs, i + 1) IN PutF(rest, fs[i].rel, GetF(rest, fs[i].rel) \cup { fs[i].tup })

AnswerOver(P, DB, q) == IF q \in Rels(P, DB) THEN Answer(P, DB, q) ELSE {}
\* what a query of session x is evaluated over
ViewDB(sys, x) == UnionF(sys.pf, sys.sess[x].f)
ViewP(sys, x)  == sys.pr \o sys.sess[x].r
Ans(sys, x, q) == AnswerOver(ViewP(sys, x), ViewDB(sys, x), q)
LocalAns(sys, op) == AnswerOver(sys.pr \o op.rules, UnionF(sys.pf, FactsOf(op.facts, 1)), op.rel)
\* the relation is known to the query's view (otherwise the system may answer "unknown relation")
Known(sys, x, q) == q \in Rels(ViewP(sys, x), NormF(ViewDB(sys, x)))
LocalKnown(sys, op) == op.rel \in Rels(sys.pr \o op.rules, NormF(UnionF(sys.pf, FactsOf(op.facts, 1))))

Apply10(sys, op) ==
  CASE op.k = "open"     -> [sys EXCEPT !.sess = [x \in DOMAIN sys.sess \cup { op.sid } |->
                                                    IF x = op.sid THEN NewSess ELSE sys.sess[x]]]
    [] op.k = "sfact"    -> [sys EXCEPT !.sess[op.sid].f = PutF(@, op.rel, GetF(@, op.rel) \cup { op.tup })]
    [] op.k = "sretract" -> [sys EXCEPT !.sess[op.sid].f = PutF(@, op.rel, GetF(@, op.rel) \ { op.tup })]
    [] op.k = "srule"    -> [sys EXCEPT !.sess[op.sid].r = Append(@, op.ast)]
    [] op.k = "pins"     -> [sys EXCEPT !.pf = PutF(@, op.rel, GetF(@, op.rel) \cup { op.tup })]
    [] op.k = "pdel"     -> [sys EXCEPT !.pf = PutF(@, op.rel, GetF(@, op.rel) \ { op.tup })]
    [] op.k = "prule"    -> [sys EXCEPT !.pr = Append(@, op.ast)]
    [] OTHER -> sys            \* squery, local: no effect on any state

---------------------------------------------------------------------------
(* The property, as statements about one step  sys -> Apply10(sys, op).    *)
(* MC_Session checks them on every reachable state of its scripts.         *)

\* a session's request never alters persistent facts or rules
KeepsPersistent(sys, op) ==
  op.k \in SessionOps => LET t == Apply10(sys, op) IN t.pf = sys.pf /\ t.pr = sys.pr
\* ... nor the answers of any other session, for any query relation
KeepsOtherAnswers(sys, op, QRels) ==
  op.k \in SessionOps \ { "open", "local" } =>
     LET t == Apply10(sys, op) IN
     \A y \in DOMAIN sys.sess \ { op.sid } : \A q \in QRels : Ans(t, y, q) = Ans(sys, y, q)
\* a request-local program leaves no trace at all
LocalLeavesNothing(sys, op) == op.k = "local" => Apply10(sys, op) = sys
=============================================================================

SPECIFICATION Spec
CONSTANTS N = 5
  Mode = "multi"
INVARIANT Emit MaintenanceStutters DropFinal KGIsolation
CHECK_DEADLOCK FALSE

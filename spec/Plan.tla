------------------------------- MODULE Plan -------------------------------
(***************************************************************************)
(* Layer A.  The denotation of an IR plan tree as a relation (C05).        *)
(*                                                                         *)
(* Plans are data (the JSON shape written by `ilv drive-plans`, columns    *)
(* 1-based):                                                               *)
(*   [op |-> "scan", rel, ar]                                              *)
(*   [op |-> "map", inp, proj]              proj : Seq(column)             *)
(*   [op |-> "filter", inp, pred]                                          *)
(*   [op |-> "join" | "antijoin", l, r, lk, rk]   join rows: see JoinRows  *)
(*   [op |-> "distinct", inp]      [op |-> "union", ins]                   *)
(*   [op |-> "compute", inp, exprs]         appends one column per expr    *)
(*   [op |-> "aggregate", inp, gb, aggs]    row = group key \o aggregates  *)
(*   [op |-> "flatmap", inp, proj, pred]    = filter(map(inp, proj), pred) *)
(*   [op |-> "joinflatmap", l, r, lk, rk, proj, pred]                      *)
(*                   = filter(map(l \o r for matching l, r; proj), pred):  *)
(*                     proj indexes the full concatenation, unlike "join"  *)
(* values    <<"i", n>> | <<"s", rank>> | <<"f", scaled>> | <<"b", bool>>  *)
(*           (strings by rank in a fixed alphabet, floats scaled by 1000:  *)
(*           only their order matters)                                     *)
(* exprs     [t |-> "col", i] | [t |-> "c", v] | [t |-> "bin", op, l, r]   *)
(* preds     cc (column op constant), cols (column op column), carith      *)
(*           (column op expression), arithc (expression op constant), and, *)
(*           or, true, false                                               *)
(* A plan denotes a set of rows: the multiplicity of intermediate rows is  *)
(* not part of its meaning (the executor's result is duplicate-free).      *)
(***************************************************************************)
EXTENDS Integers, Sequences, FiniteSets, TLC

CmpV(op, a, b) ==
  CASE op = "="  -> a = b
    [] op = "!=" -> a # b
    [] OTHER     -> /\ a[1] = b[1] /\ a[1] # "b"         \* only values of one ordered kind compare
                    /\ CASE op = "<"  -> a[2] <  b[2]
                         [] op = "<=" -> a[2] <= b[2]
                         [] op = ">"  -> a[2] >  b[2]
                         [] op = ">=" -> a[2] >= b[2]

\* a column reference outside the row is not an error of the specification but of the
\* plan: it evaluates to a value no row of a well-formed plan contains
Col(t, i) == IF i \in 1..Len(t) THEN t[i] ELSE <<"out_of_range", i>>

RECURSIVE EvalE(_, _)
EvalE(e, t) ==
  CASE e.t = "col" -> Col(t, e.i)
    [] e.t = "c"   -> e.v
    [] e.t = "bin" -> LET a == EvalE(e.l, t)[2]  b == EvalE(e.r, t)[2] IN
                      CASE e.op = "+" -> <<"i", a + b>>
                        [] e.op = "-" -> <<"i", a - b>>
                        [] e.op = "*" -> <<"i", a * b>>

RECURSIVE Holds(_, _)
Holds(p, t) ==
  CASE p.t = "cc"     -> CmpV(p.op, Col(t, p.i), p.v)
    [] p.t = "cols"   -> CmpV(p.op, Col(t, p.i), Col(t, p.j))
    [] p.t = "carith" -> CmpV(p.op, Col(t, p.i), EvalE(p.e, t))
    [] p.t = "arithc" -> CmpV(p.op, EvalE(p.e, t), p.v)
    [] p.t = "and"    -> Holds(p.l, t) /\ Holds(p.r, t)
    [] p.t = "or"     -> Holds(p.l, t) \/ Holds(p.r, t)
    [] p.t = "true"   -> TRUE
    [] p.t = "false"  -> FALSE

Proj(t, proj) == [i \in 1..Len(proj) |-> Col(t, proj[i])]
KeysMatch(l, r, lk, rk) == \A i \in 1..Len(lk) : Col(l, lk[i]) = Col(r, rk[i])
\* a join row: every left column, then the right columns that are not join keys, in order
\* (with no keys: the cartesian product, all columns)
Excl(r, rk) == LET keep == { j \in 1..Len(r) : \A i \in 1..Len(rk) : rk[i] # j }
                   RECURSIVE Sub(_)
                   Sub(j) == IF j > Len(r) THEN <<>> ELSE (IF j \in keep THEN << r[j] >> ELSE <<>>) \o Sub(j + 1)
               IN Sub(1)
JoinRows(L, R, lk, rk) == { p[1] \o Excl(p[2], rk) : p \in { p \in L \X R : KeysMatch(p[1], p[2], lk, rk) } }

RECURSIVE SumCol(_, _)
SumCol(G, i) == IF G = {} THEN 0 ELSE LET x == CHOOSE x \in G : TRUE IN Col(x, i)[2] + SumCol(G \ { x }, i)
AggOf(a, G) ==
  LET vals == { Col(t, a.i) : t \in G } IN
  CASE a.f = "count"          -> <<"i", Cardinality(G)>>
    [] a.f = "count_distinct" -> <<"i", Cardinality(vals)>>
    [] a.f = "sum"            -> <<"i", SumCol(G, a.i)>>
    [] a.f = "min"            -> CHOOSE v \in vals : \A w \in vals : v[2] <= w[2]
    [] a.f = "max"            -> CHOOSE v \in vals : \A w \in vals : v[2] >= w[2]

RECURSIVE Eval(_, _)
Eval(n, db) ==
  CASE n.op = "scan"     -> IF n.rel \in DOMAIN db THEN db[n.rel] ELSE {}
    [] n.op = "map"      -> { Proj(t, n.proj) : t \in Eval(n.inp, db) }
    [] n.op = "filter"   -> { t \in Eval(n.inp, db) : Holds(n.pred, t) }
    [] n.op = "join"     -> JoinRows(Eval(n.l, db), Eval(n.r, db), n.lk, n.rk)
    [] n.op = "antijoin" -> LET R == Eval(n.r, db) IN
                            { l \in Eval(n.l, db) : ~\E r \in R : KeysMatch(l, r, n.lk, n.rk) }
    [] n.op = "distinct" -> Eval(n.inp, db)
    [] n.op = "union"    -> UNION { Eval(n.ins[i], db) : i \in DOMAIN n.ins }
    [] n.op = "compute"  -> { t \o [i \in 1..Len(n.exprs) |-> EvalE(n.exprs[i], t)] : t \in Eval(n.inp, db) }
    [] n.op = "aggregate" ->
         LET rows == Eval(n.inp, db)
             keys == { Proj(t, n.gb) : t \in rows }
         IN { LET G == { t \in rows : Proj(t, n.gb) = k } IN
              k \o [i \in 1..Len(n.aggs) |-> AggOf(n.aggs[i], G)] : k \in keys }
    [] n.op = "flatmap"  -> { u \in { Proj(t, n.proj) : t \in Eval(n.inp, db) } : Holds(n.pred, u) }
    [] n.op = "joinflatmap" ->
         \* the fused node projects from the FULL concatenation l \o r (right key columns included)
         LET L == Eval(n.l, db)  R == Eval(n.r, db)
             full == { p[1] \o p[2] : p \in { p \in L \X R : KeysMatch(p[1], p[2], n.lk, n.rk) } }
         IN { u \in { Proj(t, n.proj) : t \in full } : Holds(n.pred, u) }
=============================================================================

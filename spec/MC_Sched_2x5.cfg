SPECIFICATION Spec
CONSTANT Steps <- Steps2x5
INVARIANT Emit
CHECK_DEADLOCK FALSE

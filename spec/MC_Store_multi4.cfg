SPECIFICATION Spec
CONSTANTS N = 4
  Mode = "multi"
INVARIANT Emit MaintenanceStutters DropFinal KGIsolation
CHECK_DEADLOCK FALSE

----------------------------- MODULE ValuesTrace -----------------------------
(***************************************************************************)
(* C31.  Total-order laws evaluated by TLC on the comparison / equality /  *)
(* hash matrices the real Value and Tuple implementations produce for a    *)
(* finite domain (every kind; 0.0, -0.0, NaNs with three payloads, +-inf,  *)
(* subnormal; both integer widths; empty / non-empty strings and vectors;  *)
(* independently built equal values), all pairs and all triples.           *)
(* Record: [what, names, cmp (n x n of -1|0|1), eq (n x n), hash (n)].     *)
(***************************************************************************)
EXTENDS Integers, Sequences, FiniteSets, TLC, Json, IOUtils

Rec == ndJsonDeserialize(IOEnv.TRACE)
VARIABLE l

Laws(R) ==
  LET N == 1..Len(R.names)
      C(i, j) == R.cmp[i][j]
      E(i, j) == R.eq[i][j]
      refl    == { i \in N : C(i, i) # 0 \/ ~E(i, i) }
      antisym == { <<i, j>> \in N \X N : C(i, j) # -C(j, i) }
      eqcons  == { <<i, j>> \in N \X N : (C(i, j) = 0) # E(i, j) }
      hashc   == { <<i, j>> \in N \X N : E(i, j) /\ R.hash[i] # R.hash[j] }
      eqsym   == { <<i, j>> \in N \X N : E(i, j) # E(j, i) }
      \* transitivity of <= : C(i,j) <= 0 /\ C(j,k) <= 0 => C(i,k) <= 0
      trans   == { <<i, j, k>> \in N \X N \X N : C(i, j) <= 0 /\ C(j, k) <= 0 /\ C(i, k) > 0 }
      Pick(S) == IF S = {} THEN <<>> ELSE LET x == CHOOSE x \in S : TRUE IN
                 [q \in DOMAIN x |-> R.names[x[q]]]      \* S is a set of pairs / triples of indices
  IN [refl |-> Cardinality(refl), antisym |-> Cardinality(antisym), eqcons |-> Cardinality(eqcons),
      hash |-> Cardinality(hashc), eqsym |-> Cardinality(eqsym), trans |-> Cardinality(trans),
      w_antisym |-> Pick(antisym), w_eqcons |-> Pick(eqcons), w_hash |-> Pick(hashc), w_trans |-> Pick(trans),
      n |-> Len(R.names)]

Out(x) == PrintT(ToJson(x))
Init == l = 1
Next == /\ l <= Len(Rec)
        /\ LET L == Laws(Rec[l]) IN
           Out(<<"VERDICT", "C31", Rec[l].what,
                 L.refl = 0 /\ L.antisym = 0 /\ L.eqcons = 0 /\ L.hash = 0 /\ L.eqsym = 0 /\ L.trans = 0, L>>)
        /\ l' = l + 1
Spec == Init /\ [][Next]_<<l>>
=============================================================================

SPECIFICATION Spec
CHECK_DEADLOCK FALSE
POSTCONDITION Consumed

SPECIFICATION Spec
CONSTANT Steps <- StepsF55
INVARIANT Emit
CHECK_DEADLOCK FALSE

SPECIFICATION Spec
CONSTANT Steps <- StepsR
INVARIANT Emit
CHECK_DEADLOCK FALSE

------------------------------ MODULE Persist ------------------------------
(***************************************************************************)
(* Layer B.  The write-ahead protocol of FilePersist (src/storage/persist) *)
(* at the granularity of its critical sections - one action per critical   *)
(* section, as the code takes them:                                        *)
(*   AppendWal(w)     the entry is written to the WAL file (synced)        *)
(*   BufferInsert(w)  the entry is put into its shard's in-memory buffer   *)
(*   Ack(w)           append returns: the write is acknowledged            *)
(*   Flush(s)         the shard's buffer is written as a batch file, the   *)
(*                    buffer is emptied and the WAL is rewritten without   *)
(*                    ANY entry of shard s (not only the flushed ones)     *)
(*   Crash            memory (the buffers) is lost; recovery reads the     *)
(*                    batch files and replays the WAL                      *)
(* Atomic = TRUE: AppendWal and BufferInsert are one critical section      *)
(* (under the shard-map lock) - the code since the repair 5d2b373.         *)
(* Atomic = FALSE: two critical sections, so a Flush of the same shard can *)
(* run between them and drop the WAL entry before it reached the buffer -  *)
(* the pinned code; TLC finds the violation of Durable in 5 steps          *)
(* (MC_Persist_split.cfg, kept as an expected-violation check).            *)
(* Insert-only (what durability of a set of acknowledged entries needs).   *)
(***************************************************************************)
EXTENDS Integers, Sequences, FiniteSets, TLC

CONSTANTS Writers,      \* writer -> [id, shard] : the one entry each writer appends
          Shards,       \* set of shard names
          Pre,          \* entries already appended and acknowledged: Seq([id, shard])
          Atomic,       \* BOOLEAN, see above
          MaxFlush      \* bound on the number of flushes (exhaustive configurations)

VARIABLES wal, buf, batches, pc, acked, nflush, crashed
vars == <<wal, buf, batches, pc, acked, nflush, crashed>>

W == DOMAIN Writers
Range(s) == { s[i] : i \in DOMAIN s }
Ids(S) == { e.id : e \in S }

Init == /\ wal = Pre
        /\ buf = [s \in Shards |-> SelectSeq(Pre, LAMBDA e : e.shard = s)]
        /\ batches = [s \in Shards |-> {}]
        /\ pc = [w \in W |-> "idle"]
        /\ acked = Range(Pre)
        /\ nflush = 0
        /\ crashed = FALSE

AppendWal(w) == /\ ~crashed /\ ~Atomic /\ pc[w] = "idle"
                /\ wal' = Append(wal, Writers[w])
                /\ pc' = [pc EXCEPT ![w] = "walled"]
                /\ UNCHANGED <<buf, batches, acked, nflush, crashed>>
BufferInsert(w) == /\ ~crashed /\ ~Atomic /\ pc[w] = "walled"
                   /\ buf' = [buf EXCEPT ![Writers[w].shard] = Append(@, Writers[w])]
                   /\ pc' = [pc EXCEPT ![w] = "buffered"]
                   /\ UNCHANGED <<wal, batches, acked, nflush, crashed>>
AppendBoth(w) == /\ ~crashed /\ Atomic /\ pc[w] = "idle"
                 /\ wal' = Append(wal, Writers[w])
                 /\ buf' = [buf EXCEPT ![Writers[w].shard] = Append(@, Writers[w])]
                 /\ pc' = [pc EXCEPT ![w] = "buffered"]
                 /\ UNCHANGED <<batches, acked, nflush, crashed>>
Ack(w) == /\ ~crashed /\ pc[w] = "buffered"
          /\ acked' = acked \cup { Writers[w] }
          /\ pc' = [pc EXCEPT ![w] = "acked"]
          /\ UNCHANGED <<wal, buf, batches, nflush, crashed>>
Flush(s) == /\ ~crashed /\ nflush < MaxFlush
            /\ batches' = [batches EXCEPT ![s] = @ \cup Range(buf[s])]
            /\ buf' = [buf EXCEPT ![s] = <<>>]
            /\ wal' = SelectSeq(wal, LAMBDA e : e.shard # s)
            /\ nflush' = nflush + 1
            /\ UNCHANGED <<pc, acked, crashed>>
Crash == /\ ~crashed /\ crashed' = TRUE
         /\ UNCHANGED <<wal, buf, batches, pc, acked, nflush>>

Next == \/ \E w \in W : AppendWal(w) \/ BufferInsert(w) \/ AppendBoth(w) \/ Ack(w)
        \/ \E s \in Shards : Flush(s)
        \/ Crash
Spec == Init /\ [][Next]_vars

\* what recovery finds on disk
Recovered == UNION { batches[s] : s \in Shards } \cup Range(wal)
\* the property (C13 / C15 at the level of the protocol): nothing acknowledged is ever off the disk
Durable == acked \subseteq Recovered
\* an entry is in memory exactly while it is on the WAL or in a batch
NothingOnlyInMemory == \A s \in Shards : Range(buf[s]) \subseteq Recovered

\* configurations (a .cfg file cannot hold records)
Writers2 == [w1 |-> [id |-> 1, shard |-> "s1"], w2 |-> [id |-> 2, shard |-> "s1"], w3 |-> [id |-> 3, shard |-> "s2"]]
Shards2 == { "s1", "s2" }
Pre2 == << [id |-> 9, shard |-> "s2"] >>
=============================================================================

SPECIFICATION Spec
CONSTANT Steps <- StepsRR
INVARIANT Emit
CHECK_DEADLOCK FALSE

----------------------------- MODULE SchedTrace -----------------------------
(***************************************************************************)
(* C15 / C20 (and the concurrent part of C17).  Linearizability of         *)
(* concurrent StorageEngine operations against the sequential store        *)
(* specification (Store.tla), and durability at crash images taken while   *)
(* every thread was parked at a scheduling point.                          *)
(*                                                                         *)
(* Record [ops, s0, served, images, queries]:                              *)
(*   ops[i]    = [id, op, call, ret, ok]   call/ret = positions in the     *)
(*               controller's global event order (ret = 0: not returned)   *)
(*   served    = state observed after all threads finished                 *)
(*   images[j] = [at, recovered, reopened]  crash image at event `at`       *)
(*   queries[k] = [call, ret, kg, rel, obs, thr]  what a snapshot query saw  *)
(*                                                                         *)
(* Serializable (C15): some order of the acknowledged operations that      *)
(* respects real time (a returned before b called => a before b) takes s0  *)
(* to the served state.                                                    *)
(* Durable (C15): at an image, some order of all operations returned       *)
(* before it plus a subset of those in flight takes s0 to the recovered    *)
(* state, and the store reopened.                                          *)
(* CommittedPrefix (C20): a query's observation is the relation after some *)
(* real-time-respecting order of a set of operations that contains every   *)
(* operation returned before the query was called (hence the client's own) *)
(* and only operations called before it returned - never half a batch.     *)
(***************************************************************************)
EXTENDS Store, Json, IOUtils

Rec == ndJsonDeserialize(IOEnv.TRACE)
VARIABLE l
Out(x) == PrintT(ToJson(x))

ConvState(o) ==
  [kgs     |-> ToSetS(o.kgs),
   facts   |-> [g \in DOMAIN o.facts |-> LET m == [r \in DOMAIN o.facts[g] |-> ToSetS(o.facts[g][r])] IN
                                         [r \in { r \in DOMAIN m : m[r] # {} } |-> m[r]]],
   rules   |-> [g \in DOMAIN o.rules |-> [n \in DOMAIN o.rules[g] |-> ToSetS(o.rules[g][n])]],
   schemas |-> [g \in DOMAIN o.schemas |-> [r \in DOMAIN o.schemas[g] |-> o.schemas[g][r]]]]

\* all orders (as sequences of indices) of the index set S
Orders(S) == { f \in [1..Cardinality(S) -> S] : \A i, j \in 1..Cardinality(S) : i # j => f[i] # f[j] }
RealTime(ops, f) == \A i, j \in DOMAIN f : (ops[f[j]].ret # 0 /\ ops[f[j]].ret < ops[f[i]].call) => j < i
\* `force` = operations applied whatever they finally returned (an operation in flight
\* at a crash may have taken effect although it is refused later)
RECURSIVE RunF(_, _, _, _, _)
RunF(ops, f, s, i, force) ==
  IF i > Len(f) THEN s
  ELSE RunF(ops, f, IF ops[f[i]].ok \/ f[i] \in force THEN Apply(ops[f[i]].op, s) ELSE s, i + 1, force)
Run(ops, f, s, i) == RunF(ops, f, s, i, {})

Serializable(ops, s0, served) ==
  LET S == { i \in DOMAIN ops : ops[i].ret # 0 } IN
  \E f \in Orders(S) : RealTime(ops, f) /\ Run(ops, f, s0, 1) = served

Durable(ops, s0, img) ==
  LET acked == { i \in DOMAIN ops : ops[i].ret # 0 /\ ops[i].ret <= img.at }
      infl  == { i \in DOMAIN ops : ops[i].call <= img.at /\ (ops[i].ret = 0 \/ ops[i].ret > img.at) }
  IN /\ img.reopened
     /\ \E X \in SUBSET infl : \E f \in Orders(acked \cup X) :
           RealTime(ops, f) /\ RunF(ops, f, s0, 1, X) = ConvState(img.recovered)

\* C17: once a drop is acknowledged, no fact of the dropped incarnation (the facts the
\* graph held in s0) is observable in that graph again
DropFinalAt(ops, s0, st, at) ==
  \A i \in DOMAIN ops : (ops[i].op.k = "drop" /\ ops[i].ok /\ ops[i].ret # 0 /\ ops[i].ret <= at) =>
     \A r \in DOMAIN Get(s0.facts, ops[i].op.kg, EmptyMap) :
        Rel(st, ops[i].op.kg, r) \cap Rel(s0, ops[i].op.kg, r) = {}
OtherGraphsUntouched(ops, s0, st) ==
  \A g \in s0.kgs \ { ops[i].op.kg : i \in DOMAIN ops } : Get(st.facts, g, EmptyMap) = Get(s0.facts, g, EmptyMap)

PrefixOK(ops, s0, q) ==
  LET must == { i \in DOMAIN ops : ops[i].ret # 0 /\ ops[i].ret < q.call }
      may  == { i \in DOMAIN ops : ops[i].call < q.ret }
  IN \E X \in SUBSET (may \ must) : \E f \in Orders(must \cup X) :
        RealTime(ops, f) /\ Rel(Run(ops, f, s0, 1), q.kg, q.rel) = ToSetS(q.obs)

Init == l = 1
Next == /\ l <= Len(Rec)
        /\ LET R == Rec[l]  s0 == ConvState(R.s0) IN
           /\ Out(<<"VERDICT", R.prop, R.case, 0, ~R.timed_out /\ Serializable(R.ops, s0, ConvState(R.served)),
                    [what |-> "serializable", timed_out |-> R.timed_out]>>)
           /\ \A j \in DOMAIN R.images :
                 IF R.prop = "C17"
                 THEN Out(<<"VERDICT", "C17", R.case, j,
                            /\ R.images[j].reopened
                            /\ DropFinalAt(R.ops, s0, ConvState(R.images[j].recovered), R.images[j].at)
                            /\ OtherGraphsUntouched(R.ops, s0, ConvState(R.images[j].recovered))
                            /\ j = Len(R.images) => ( /\ DropFinalAt(R.ops, s0, ConvState(R.served), R.images[j].at)
                                                      /\ OtherGraphsUntouched(R.ops, s0, ConvState(R.served)) ),
                            [what |-> "drop_final", at |-> R.images[j].at, reopened |-> R.images[j].reopened]>>)
                 ELSE
                 Out(<<"VERDICT", R.prop, R.case, j,
                       /\ Durable(R.ops, s0, R.images[j])
                       \* with nothing in flight the recovered state is the served state
                       /\ (j = Len(R.images) /\ ~R.timed_out) => ConvState(R.images[j].recovered) = ConvState(R.served),
                       [what |-> IF Durable(R.ops, s0, R.images[j]) THEN "recovered_differs_from_served" ELSE "durable",
                        at |-> R.images[j].at, reopened |-> R.images[j].reopened]>>)
           /\ \A k \in DOMAIN R.queries :
                 Out(<<"VERDICT", R.queries[k].prop, R.case, k, R.queries[k].ok /\ PrefixOK(R.ops, s0, R.queries[k]),
                       [what |-> "prefix", thr |-> R.queries[k].thr, ok |-> R.queries[k].ok, err |-> R.queries[k].err]>>)
        /\ l' = l + 1
Spec == Init /\ [][Next]_<<l>>
Consumed == TLCGet("stats").diameter = Len(Rec) + 1 \/ PrintT(<<"UNCONSUMED", TLCGet("stats").diameter, Len(Rec)>>)
=============================================================================

----------------------------- MODULE MC_Datalog -----------------------------
(***************************************************************************)
(* Exhaustive meta-checks of the oracle Datalog.tla itself (it is in the   *)
(* trusted base of C01-C10, C18, C21-C23, C34).  TLC enumerates EVERY       *)
(* program of up to MaxLen clauses over a small clause universe (heads     *)
(* p(X), q(X); bodies of one or two literals among e(X), f(X), p(X), q(X), *)
(* !p(X), !q(X), !f(X) with a positive literal first; plus two binary     *)
(* clauses for recursion through a join) and every database over           *)
(* e, f \subseteq {1, 2}, and checks for each stratified one that          *)
(*   IsModel      Model(P, DB) is closed under every clause,               *)
(*   Supported    every derived tuple has a clause instance producing it   *)
(*                from the model (no unfounded tuples),                    *)
(*   ExtendsDB    base relations are unchanged,                            *)
(*   OrderFree    the reversed and the rotated program have the same model *)
(*                (C04 at the level of the specification),                 *)
(*   DupFree      duplicating a clause changes nothing,                    *)
(*   Monotone     for negation-free programs, a larger database gives a    *)
(*                larger model,                                            *)
(* and that NegStratified / Stratified agree with an independent           *)
(* definition of "no negative edge on a cycle" by path search.             *)
(***************************************************************************)
EXTENDS Datalog
CONSTANT MaxLen
VARIABLES P, DB

V(n) == [t |-> "v", n |-> n]
Lit(k, r) == [k |-> k, r |-> r, a |-> << V("X") >>]
PosLits == { Lit("pos", "e"), Lit("pos", "f"), Lit("pos", "p"), Lit("pos", "q") }
NegLits == { Lit("neg", "p"), Lit("neg", "q"), Lit("neg", "f") }
Bodies == { << l >> : l \in PosLits }
          \cup { << p[1], p[2] >> : p \in { p \in PosLits \X (PosLits \cup NegLits) : p[1] # p[2] } }
Unary == { [h |-> [r |-> h, a |-> << V("X") >>], b |-> b] : h \in { "p", "q" }, b \in Bodies }
\* q2(X, Y) over pairs is out of this universe on purpose (arity 1 only): recursion goes through p and q
Clauses == Unary

Progs == UNION { [1..n -> Clauses] : n \in 1..MaxLen }
DBs == { [e |-> { << <<"i", x>> >> : x \in E }, f |-> { << <<"i", x>> >> : x \in F }] : E \in SUBSET { 1, 2 }, F \in SUBSET { 1, 2 } }

Init == P \in Progs /\ DB \in DBs
Next == UNCHANGED <<P, DB>>
Spec == Init /\ [][Next]_<<P, DB>>

Reverse(s) == [i \in 1..Len(s) |-> s[Len(s) + 1 - i]]
Rotate(s) == IF Len(s) <= 1 THEN s ELSE Tail(s) \o << Head(s) >>

M == Model(P, DB)
IsModel   == Stratified(P) => \A i \in DOMAIN P : Derive(P[i], M, "var") \subseteq M[P[i].h.r]
Supported == Stratified(P) => \A r \in HeadRels(P) : \A t \in M[r] :
                                 \E i \in DOMAIN P : P[i].h.r = r /\ t \in Derive(P[i], M, "var")
ExtendsDB == Stratified(P) => \A r \in DOMAIN DB \ HeadRels(P) : M[r] = DB[r]
OrderFree == Stratified(P) => Model(Reverse(P), DB) = M /\ Model(Rotate(P), DB) = M
DupFree   == Stratified(P) => \A r \in DOMAIN M : Model(P \o << P[1] >>, DB)[r] = M[r]
NegFree   == \A i \in DOMAIN P : \A j \in DOMAIN P[i].b : P[i].b[j].k # "neg"
Monotone  == NegFree => \A D2 \in DBs : (\A r \in DOMAIN DB : DB[r] \subseteq D2[r]) =>
                            \A r \in DOMAIN M : M[r] \subseteq Model(P, D2)[r]

\* independent reading of "recursion through negation": a negative edge h -> r such that h is
\* reachable from r by a path of edges, found by breadth-first search over relation names
Succ(S) == S \cup { e[2] : e \in { e \in Edges(P) : e[1] \in S } }
RECURSIVE Closure(_)
Closure(S) == IF Succ(S) = S THEN S ELSE Closure(Succ(S))
OnCycleNeg == \E e \in NegEdges(P) : e[1] \in Closure({ e[2] })
StratAgrees == NegStratified(P) = ~OnCycleNeg /\ (Stratified(P) = ~OnCycleNeg)
=============================================================================

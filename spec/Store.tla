------------------------------- MODULE Store -------------------------------
(***************************************************************************)
(* Layer A.  The durable multi-graph store as a user sees it.              *)
(*                                                                         *)
(* An abstract state is a record                                           *)
(*   [kgs   : set of graph names,                                          *)
(*    facts : [kg -> [rel -> set of tuples]]   (only non-empty relations), *)
(*    rules : [kg -> [name -> set of clause texts]],                       *)
(*    schemas : [kg -> [rel -> schema token]]]                             *)
(* and Apply(op, s) is the state after one acknowledged operation.         *)
(* Maintenance (save / flush / compact), clean restarts, and a failed      *)
(* operation leave the state unchanged; a crash may lose only operations   *)
(* that were not acknowledged (CrashOK).                                   *)
(*                                                                         *)
(* Operations are records [k |-> kind, kg |-> g, rel |-> r, tuples |-> Seq] *)
(* (fields present as the kind needs them).                                *)
(***************************************************************************)
EXTENDS Integers, Sequences, FiniteSets, TLC

ToSetS(s) == { s[i] : i \in DOMAIN s }

\* ---- function helpers (finite maps as TLA+ functions with string domains)
Get(f, k, default) == IF k \in DOMAIN f THEN f[k] ELSE default
Put(f, k, v)       == [x \in DOMAIN f \cup { k } |-> IF x = k THEN v ELSE f[x]]
Del(f, k)          == [x \in DOMAIN f \ { k } |-> f[x]]
EmptyMap           == [x \in {} |-> {}]

EmptyState == [kgs |-> {}, facts |-> EmptyMap, rules |-> EmptyMap, schemas |-> EmptyMap]
InitState(defaultKg) ==
  [kgs |-> { defaultKg }, facts |-> (defaultKg :> EmptyMap), rules |-> (defaultKg :> EmptyMap),
   schemas |-> (defaultKg :> EmptyMap)]

Rel(s, g, r) == Get(Get(s.facts, g, EmptyMap), r, {})

\* relations are kept only while non-empty, so that "empty" and "absent" are
\* the same observable
SetRel(s, g, r, T) ==
  LET old == Get(s.facts, g, EmptyMap)
      new == IF T = {} THEN Del(old, r) ELSE Put(old, r, T)
  IN [s EXCEPT !.facts = Put(s.facts, g, new)]

\* condition of a conditional delete / update: column `col` (1-based) compared
\* with the token `val` by equality or inequality
Matching(op, R) == { t \in R : IF op.op = "=" THEN t[op.col] = op.val ELSE t[op.col] # op.val }

\* what a write reports (C32): tuples that were absent / present / matched
Reported(op, s) ==
  CASE op.k = "ins"  -> Cardinality(ToSetS(op.tuples) \ Rel(s, op.kg, op.rel))
    [] op.k = "del"  -> Cardinality(ToSetS(op.tuples) \cap Rel(s, op.kg, op.rel))
    [] op.k \in { "cdel", "upd" } -> Cardinality(Matching(op, Rel(s, op.kg, op.rel)))
    [] OTHER -> 0

Maintenance == { "save", "compact", "save_all", "flush" }
Restarts    == { "restart", "restart_nosave" }

\* The state after operation op succeeded on state s.
Apply(op, s) ==
  CASE op.k = "ins"  -> SetRel(s, op.kg, op.rel, Rel(s, op.kg, op.rel) \cup ToSetS(op.tuples))
    [] op.k = "del"  -> SetRel(s, op.kg, op.rel, Rel(s, op.kg, op.rel) \ ToSetS(op.tuples))
    [] op.k = "droprel" -> SetRel(s, op.kg, op.rel, {})
    \* conditional delete: remove exactly the tuples matching the condition
    [] op.k = "cdel" -> SetRel(s, op.kg, op.rel, Rel(s, op.kg, op.rel) \ Matching(op, Rel(s, op.kg, op.rel)))
    \* update: delete the matching tuples, insert their images (column setcol := setval)
    [] op.k = "upd"  -> LET R == Rel(s, op.kg, op.rel)
                            D == Matching(op, R)
                            I == { [t EXCEPT ![op.setcol] = op.setval] : t \in D }
                        IN SetRel(s, op.kg, op.rel, (R \ D) \cup I)
    [] op.k = "create" -> [s EXCEPT !.kgs = @ \cup { op.kg }, !.facts = Put(@, op.kg, EmptyMap),
                                    !.rules = Put(@, op.kg, EmptyMap), !.schemas = Put(@, op.kg, EmptyMap)]
    [] op.k = "drop"   -> [s EXCEPT !.kgs = @ \ { op.kg }, !.facts = Del(@, op.kg),
                                    !.rules = Del(@, op.kg), !.schemas = Del(@, op.kg)]
    [] op.k = "rule"   -> [s EXCEPT !.rules = Put(@, op.kg,
                               Put(Get(@, op.kg, EmptyMap), op.name,
                                   Get(Get(@, op.kg, EmptyMap), op.name, {}) \cup { op.text }))]
    [] op.k = "droprule" -> [s EXCEPT !.rules = Put(@, op.kg, Del(Get(@, op.kg, EmptyMap), op.name))]
    [] op.k = "schema" -> [s EXCEPT !.schemas = Put(@, op.kg, Put(Get(@, op.kg, EmptyMap), op.rel, op.schema))]
    [] op.k = "dropschema" -> [s EXCEPT !.schemas = Put(@, op.kg, Del(Get(@, op.kg, EmptyMap), op.rel))]
    [] op.k \in Maintenance \cup Restarts -> s
    [] OTHER -> s

\* Is the operation expected to succeed on s?  (A target graph must exist,
\* a graph cannot be created twice.)  "may" = the statement does not say.
MustSucceed(op, s) ==
  CASE op.k \in { "ins", "del" }  -> op.kg \in s.kgs
    [] op.k \in Maintenance \cup Restarts -> TRUE
    [] op.k = "create" -> op.kg \notin s.kgs
    [] op.k = "drop"   -> FALSE     \* dropping the default / current graph may be refused
    [] OTHER -> FALSE
MustFail(op, s) ==
  CASE op.k \in { "ins", "del", "rule", "schema" } -> op.kg \notin s.kgs
    [] op.k = "create" -> op.kg \in s.kgs
    [] op.k = "drop"   -> op.kg \notin s.kgs
    [] OTHER -> FALSE

\* Accepted outcomes of one step: pre-state s, operation op, acknowledged
\* ok/err, observed post-state t.
StepOK(s, op, ok, t) ==
  /\ MustSucceed(op, s) => ok
  /\ MustFail(op, s) => ~ok
  /\ t = (IF ok THEN Apply(op, s) ELSE s)

\* A write report is accurate (C32): new = tuples that were absent.
RECURSIVE ApplySeq(_, _, _)
ApplySeq(ops, s, i) == IF i > Len(ops) THEN s ELSE ApplySeq(ops, Apply(ops[i], s), i + 1)

\* Crash acceptance (C13): log = attempted operations in order, nAcked of
\* them acknowledged before the crash (a prefix, the engine being driven by
\* one client); the recovered state must be the state after some prefix that
\* contains every acknowledged operation.
CrashOK(s0, log, nAcked, recovered) ==
  \E p \in nAcked .. Len(log) : recovered = ApplySeq(SubSeq(log, 1, p), s0, 1)

\* Isolation (C17): an operation on graph g leaves every other graph alone.
Isolated(s, op, t) == \A g \in (s.kgs \cap t.kgs) \ { op.kg } :
                         /\ Get(s.facts, g, EmptyMap) = Get(t.facts, g, EmptyMap)
                         /\ Get(s.rules, g, EmptyMap) = Get(t.rules, g, EmptyMap)
                         /\ Get(s.schemas, g, EmptyMap) = Get(t.schemas, g, EmptyMap)
=============================================================================

//! Worker pool with a per-job watchdog.  The code under test can hang (e.g. a
//! dataflow that never reaches a fixpoint); a hang is *data*, not a tool error:
//! the job is reported as `Outcome::Hung`, its thread is abandoned (it cannot be
//! killed) and a replacement worker is started.  Callers must end the process
//! with `std::process::exit` because abandoned threads never finish.
use std::sync::mpsc;
use std::sync::Arc;
use std::time::{Duration, Instant};

pub enum Outcome<R> {
    Done(R),
    Hung,
}

pub fn run<J, R, F>(jobs: Vec<J>, threads: usize, timeout: Duration, f: F) -> Vec<(usize, Outcome<R>)>
where
    J: Send + 'static,
    R: Send + 'static,
    F: Fn(usize, J) -> R + Send + Sync + 'static,
{
    let n = jobs.len();
    let queue = Arc::new(parking_lot::Mutex::new(jobs.into_iter().enumerate().collect::<Vec<_>>()));
    queue.lock().reverse();
    let f = Arc::new(f);
    // events: (worker, Some(job index) = started / None, result)
    enum Ev<R> {
        Start(usize, usize),
        End(usize, usize, R),
        Idle(usize),
    }
    let (tx, rx) = mpsc::channel::<Ev<R>>();
    let spawn = |wid: usize| {
        let queue = queue.clone();
        let f = f.clone();
        let tx = tx.clone();
        std::thread::spawn(move || loop {
            let job = queue.lock().pop();
            let Some((idx, j)) = job else {
                let _ = tx.send(Ev::Idle(wid));
                break;
            };
            let _ = tx.send(Ev::Start(wid, idx));
            let r = f(idx, j);
            if tx.send(Ev::End(wid, idx, r)).is_err() {
                break;
            }
        });
    };
    let mut next_wid = 0usize;
    for _ in 0..threads.max(1) {
        spawn(next_wid);
        next_wid += 1;
    }
    let mut running: std::collections::HashMap<usize, (usize, Instant)> = Default::default();
    let mut abandoned: std::collections::HashSet<usize> = Default::default();
    let mut live = threads.max(1);
    let mut out: Vec<(usize, Outcome<R>)> = Vec::with_capacity(n);
    let mut done_idx: std::collections::HashSet<usize> = Default::default();
    while out.len() < n && live > 0 {
        match rx.recv_timeout(Duration::from_millis(500)) {
            Ok(Ev::Start(w, idx)) => {
                if !abandoned.contains(&w) {
                    running.insert(w, (idx, Instant::now()));
                }
            }
            Ok(Ev::End(w, idx, r)) => {
                if !abandoned.contains(&w) {
                    running.remove(&w);
                    if done_idx.insert(idx) {
                        out.push((idx, Outcome::Done(r)));
                    }
                }
            }
            Ok(Ev::Idle(w)) => {
                if !abandoned.contains(&w) {
                    live -= 1;
                }
            }
            Err(_) => {}
        }
        let now = Instant::now();
        let late: Vec<(usize, usize)> =
            running.iter().filter(|(_, (_, t0))| now.duration_since(*t0) > timeout).map(|(w, (i, _))| (*w, *i)).collect();
        for (w, idx) in late {
            running.remove(&w);
            abandoned.insert(w);
            if done_idx.insert(idx) {
                out.push((idx, Outcome::Hung));
            }
            spawn(next_wid);
            next_wid += 1;
        }
    }
    out.sort_by_key(|x| x.0);
    out
}

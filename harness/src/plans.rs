//! drive-plans (C05): plan trees before and after every IR rewrite pass.
//!
//! Two sources of plans: (a) random well-formed trees over typed base relations,
//! generated here (seeded); (b) the IR the real IRBuilder produces for rule texts
//! given by the Python side.  For every plan the rewrite passes are run one by one
//! (join planning, boolean specialization, optimizer fixpoint + fusion) and in
//! pipeline order; every plan (before and after) is serialized to the abstract
//! syntax of spec/Plan.tla and executed by the real CodeGenerator on the case's
//! database.  spec/PlanTrace.tla evaluates the plans itself (Plan!Eval) and judges.
use inputlayer::ast::{ArithExpr, ArithOp as AstOp, ComparisonOp};
use inputlayer::ir::{AggregateFunction, ArithOp, IRExpression};
use inputlayer::value::{Tuple, Value};
use inputlayer::{BooleanSpecializer, CodeGenerator, IRNode, JoinPlanner, Optimizer, Predicate, SemiringType};
use rand::rngs::StdRng;
use rand::{Rng, SeedableRng};
use serde_json::{json, Value as J};
use std::collections::{BTreeMap, HashMap};
use std::io::Write;
use std::panic::{catch_unwind, AssertUnwindSafe};

const STRS: [&str; 4] = ["a", "ab", "b", "c"];

#[derive(Clone, Copy, PartialEq, Debug)]
enum Ty {
    I,
    S,
    F,
    B,
}

/// base relations and their column types
fn rels() -> Vec<(&'static str, Vec<Ty>)> {
    vec![
        ("a", vec![Ty::I, Ty::I]),
        ("b", vec![Ty::I, Ty::I]),
        ("c", vec![Ty::I, Ty::I, Ty::I]),
        ("s", vec![Ty::I, Ty::S]),
        ("f", vec![Ty::I, Ty::F]),
        ("t", vec![Ty::I, Ty::B]),
    ]
}

fn rand_val(rng: &mut StdRng, ty: Ty) -> Value {
    match ty {
        Ty::I => Value::Int64(rng.gen_range(0..4)),
        Ty::S => Value::string(STRS[rng.gen_range(0..STRS.len())]),
        Ty::F => Value::Float64([0.5, 1.0, 1.5, 2.5][rng.gen_range(0..4)]),
        Ty::B => Value::Bool(rng.gen_bool(0.5)),
    }
}

fn enc(v: &Value) -> J {
    match v {
        Value::Int32(n) => json!(["i", n]),
        Value::Int64(n) => json!(["i", n]),
        Value::String(s) => match STRS.iter().position(|x| *x == s.as_ref() as &str) {
            Some(p) => json!(["s", p + 1]),
            None => json!(["sx", s.to_string()]),
        },
        Value::Float64(f) => json!(["f", (f * 1000.0).round() as i64]),
        Value::Bool(b) => json!(["b", b]),
        other => json!(["x", format!("{other:?}")]),
    }
}

fn enc_rows(rows: &[Tuple]) -> J {
    let mut v: Vec<J> = rows.iter().map(|t| J::Array(t.values().iter().map(enc).collect())).collect();
    v.sort_by_key(|r| r.to_string());
    v.dedup();
    J::Array(v)
}

// ---------------------------------------------------------------- serialization

fn cmp_name(op: &ComparisonOp) -> &'static str {
    match op {
        ComparisonOp::Equal => "=",
        ComparisonOp::NotEqual => "!=",
        ComparisonOp::LessThan => "<",
        ComparisonOp::LessOrEqual => "<=",
        ComparisonOp::GreaterThan => ">",
        ComparisonOp::GreaterOrEqual => ">=",
    }
}

fn arith_json(e: &ArithExpr, map: &HashMap<String, usize>) -> J {
    match e {
        ArithExpr::Variable(v) => match map.get(v) {
            Some(c) => json!({"t": "col", "i": c + 1}),
            None => json!({"t": "unbound", "n": v}),
        },
        ArithExpr::Constant(n) => json!({"t": "c", "v": ["i", n]}),
        ArithExpr::FloatConstant(bits) => json!({"t": "c", "v": ["f", (f64::from_bits(*bits) * 1000.0).round() as i64]}),
        ArithExpr::Binary { op, left, right } => json!({"t": "bin", "op": match op {
            AstOp::Add => "+", AstOp::Sub => "-", AstOp::Mul => "*", AstOp::Div => "/", AstOp::Mod => "%" },
            "l": arith_json(left, map), "r": arith_json(right, map)}),
    }
}

fn expr_json(e: &IRExpression) -> J {
    match e {
        IRExpression::Column(c) => json!({"t": "col", "i": c + 1}),
        IRExpression::IntConstant(n) => json!({"t": "c", "v": ["i", n]}),
        IRExpression::FloatConstant(f) => json!({"t": "c", "v": ["f", (f * 1000.0).round() as i64]}),
        IRExpression::StringConstant(s) => json!({"t": "c", "v": enc(&Value::string(s))}),
        IRExpression::BoolConstant(b) => json!({"t": "c", "v": ["b", b]}),
        IRExpression::Arithmetic { op, left, right } => json!({"t": "bin", "op": match op {
            ArithOp::Add => "+", ArithOp::Sub => "-", ArithOp::Mul => "*", ArithOp::Div => "/", ArithOp::Mod => "%" },
            "l": expr_json(left), "r": expr_json(right)}),
        other => json!({"t": "unsupported", "d": format!("{other:?}")}),
    }
}

fn sval(s: &str) -> J {
    enc(&Value::string(s))
}

fn fval(f: f64) -> J {
    json!(["f", (f * 1000.0).round() as i64])
}

fn pred_json(p: &Predicate) -> J {
    let cc = |op: &str, c: &usize, v: J| json!({"t": "cc", "op": op, "i": c + 1, "v": v});
    let cols = |op: &str, a: &usize, b: &usize| json!({"t": "cols", "op": op, "i": a + 1, "j": b + 1});
    match p {
        Predicate::ColumnEqConst(c, n) => cc("=", c, json!(["i", n])),
        Predicate::ColumnNeConst(c, n) => cc("!=", c, json!(["i", n])),
        Predicate::ColumnGtConst(c, n) => cc(">", c, json!(["i", n])),
        Predicate::ColumnLtConst(c, n) => cc("<", c, json!(["i", n])),
        Predicate::ColumnGeConst(c, n) => cc(">=", c, json!(["i", n])),
        Predicate::ColumnLeConst(c, n) => cc("<=", c, json!(["i", n])),
        Predicate::ColumnEqStr(c, s) => cc("=", c, sval(s)),
        Predicate::ColumnNeStr(c, s) => cc("!=", c, sval(s)),
        Predicate::ColumnLtStr(c, s) => cc("<", c, sval(s)),
        Predicate::ColumnGtStr(c, s) => cc(">", c, sval(s)),
        Predicate::ColumnLeStr(c, s) => cc("<=", c, sval(s)),
        Predicate::ColumnGeStr(c, s) => cc(">=", c, sval(s)),
        Predicate::ColumnEqBool(c, b) => cc("=", c, json!(["b", b])),
        Predicate::ColumnNeBool(c, b) => cc("!=", c, json!(["b", b])),
        Predicate::ColumnEqFloat(c, f) => cc("=", c, fval(*f)),
        Predicate::ColumnNeFloat(c, f) => cc("!=", c, fval(*f)),
        Predicate::ColumnGtFloat(c, f) => cc(">", c, fval(*f)),
        Predicate::ColumnLtFloat(c, f) => cc("<", c, fval(*f)),
        Predicate::ColumnGeFloat(c, f) => cc(">=", c, fval(*f)),
        Predicate::ColumnLeFloat(c, f) => cc("<=", c, fval(*f)),
        Predicate::ColumnsEq(a, b) => cols("=", a, b),
        Predicate::ColumnsNe(a, b) => cols("!=", a, b),
        Predicate::ColumnsLt(a, b) => cols("<", a, b),
        Predicate::ColumnsGt(a, b) => cols(">", a, b),
        Predicate::ColumnsLe(a, b) => cols("<=", a, b),
        Predicate::ColumnsGe(a, b) => cols(">=", a, b),
        Predicate::ColumnCompareArith(c, op, e, map) => {
            json!({"t": "carith", "op": cmp_name(op), "i": c + 1, "e": arith_json(e, map)})
        }
        Predicate::ArithCompareConst(e, op, n, map) => {
            json!({"t": "arithc", "op": cmp_name(op), "e": arith_json(e, map), "v": ["i", n]})
        }
        Predicate::And(a, b) => json!({"t": "and", "l": pred_json(a), "r": pred_json(b)}),
        Predicate::Or(a, b) => json!({"t": "or", "l": pred_json(a), "r": pred_json(b)}),
        Predicate::True => json!({"t": "true"}),
        Predicate::False => json!({"t": "false"}),
        #[allow(unreachable_patterns)]
        other => json!({"t": "unsupported", "d": format!("{other:?}")}),
    }
}

fn one(v: &[usize]) -> Vec<usize> {
    v.iter().map(|x| x + 1).collect()
}

fn agg_name(f: &AggregateFunction) -> Option<&'static str> {
    match f {
        AggregateFunction::Count => Some("count"),
        AggregateFunction::CountDistinct => Some("count_distinct"),
        AggregateFunction::Sum => Some("sum"),
        AggregateFunction::Min => Some("min"),
        AggregateFunction::Max => Some("max"),
        _ => None,
    }
}

fn optpred(p: &Option<Predicate>) -> J {
    match p {
        Some(p) => pred_json(p),
        None => json!({"t": "true"}),
    }
}

pub fn plan_json(n: &IRNode) -> J {
    match n {
        IRNode::Scan { relation, schema } => json!({"op": "scan", "rel": relation, "ar": schema.len()}),
        IRNode::Map { input, projection, .. } => json!({"op": "map", "inp": plan_json(input), "proj": one(projection)}),
        IRNode::Filter { input, predicate } => json!({"op": "filter", "inp": plan_json(input), "pred": pred_json(predicate)}),
        IRNode::Join { left, right, left_keys, right_keys, .. } => {
            json!({"op": "join", "l": plan_json(left), "r": plan_json(right), "lk": one(left_keys), "rk": one(right_keys)})
        }
        IRNode::Distinct { input } => json!({"op": "distinct", "inp": plan_json(input)}),
        IRNode::Union { inputs } => json!({"op": "union", "ins": inputs.iter().map(plan_json).collect::<Vec<_>>()}),
        IRNode::Aggregate { input, group_by, aggregations, .. } => {
            let aggs: Vec<J> = aggregations
                .iter()
                .map(|(f, c)| match agg_name(f) {
                    Some(name) => json!({"f": name, "i": c + 1}),
                    None => json!({"f": "unsupported", "i": c + 1}),
                })
                .collect();
            json!({"op": "aggregate", "inp": plan_json(input), "gb": one(group_by), "aggs": aggs})
        }
        IRNode::Antijoin { left, right, left_keys, right_keys, .. } => {
            json!({"op": "antijoin", "l": plan_json(left), "r": plan_json(right), "lk": one(left_keys), "rk": one(right_keys)})
        }
        IRNode::Compute { input, expressions } => {
            json!({"op": "compute", "inp": plan_json(input), "exprs": expressions.iter().map(|(_, e)| expr_json(e)).collect::<Vec<_>>()})
        }
        IRNode::FlatMap { input, projection, filter_predicate, .. } => {
            json!({"op": "flatmap", "inp": plan_json(input), "proj": one(projection), "pred": optpred(filter_predicate)})
        }
        IRNode::JoinFlatMap { left, right, left_keys, right_keys, projection, filter_predicate, .. } => {
            json!({"op": "joinflatmap", "l": plan_json(left), "r": plan_json(right), "lk": one(left_keys), "rk": one(right_keys),
                   "proj": one(projection), "pred": optpred(filter_predicate)})
        }
        other => json!({"op": "unsupported", "d": format!("{other:?}").chars().take(80).collect::<String>()}),
    }
}

fn supported(j: &J) -> bool {
    match j {
        J::Object(o) => {
            if o.get("op").and_then(|x| x.as_str()) == Some("unsupported")
                || o.get("t").and_then(|x| x.as_str()) == Some("unsupported")
                || o.get("t").and_then(|x| x.as_str()) == Some("unbound")
                || o.get("f").and_then(|x| x.as_str()) == Some("unsupported")
            {
                return false;
            }
            o.values().all(supported)
        }
        J::Array(a) => a.iter().all(supported),
        _ => true,
    }
}

// ---------------------------------------------------------------- random trees

struct Gen {
    rng: StdRng,
    fresh: usize,
}

impl Gen {
    fn name(&mut self) -> String {
        self.fresh += 1;
        format!("V{}", self.fresh)
    }

    fn arith(&mut self, tys: &[Ty], depth: usize) -> Option<IRExpression> {
        let ints: Vec<usize> = (0..tys.len()).filter(|i| tys[*i] == Ty::I).collect();
        if ints.is_empty() {
            return None;
        }
        if depth == 0 || self.rng.gen_bool(0.4) {
            return Some(if self.rng.gen_bool(0.7) {
                IRExpression::Column(ints[self.rng.gen_range(0..ints.len())])
            } else {
                IRExpression::IntConstant(self.rng.gen_range(0..4))
            });
        }
        let op = [ArithOp::Add, ArithOp::Sub, ArithOp::Mul][self.rng.gen_range(0..3)];
        Some(IRExpression::Arithmetic { op, left: Box::new(self.arith(tys, depth - 1)?), right: Box::new(self.arith(tys, depth - 1)?) })
    }

    fn ast_arith(&mut self, vars: &[String], depth: usize) -> ArithExpr {
        if depth == 0 || self.rng.gen_bool(0.4) {
            return if self.rng.gen_bool(0.7) {
                ArithExpr::Variable(vars[self.rng.gen_range(0..vars.len())].clone())
            } else {
                ArithExpr::Constant(self.rng.gen_range(0..4))
            };
        }
        let op = [AstOp::Add, AstOp::Sub, AstOp::Mul][self.rng.gen_range(0..3)];
        ArithExpr::Binary { op, left: Box::new(self.ast_arith(vars, depth - 1)), right: Box::new(self.ast_arith(vars, depth - 1)) }
    }

    fn pred(&mut self, tys: &[Ty], depth: usize) -> Predicate {
        let n = tys.len();
        if depth > 0 && self.rng.gen_bool(0.3) {
            let (a, b) = (self.pred(tys, depth - 1), self.pred(tys, depth - 1));
            return if self.rng.gen_bool(0.5) { Predicate::And(Box::new(a), Box::new(b)) } else { Predicate::Or(Box::new(a), Box::new(b)) };
        }
        let c = self.rng.gen_range(0..n);
        let k = self.rng.gen_range(0..100);
        if k < 4 {
            return Predicate::True;
        }
        if k < 7 {
            return Predicate::False;
        }
        let ints: Vec<usize> = (0..n).filter(|i| tys[*i] == Ty::I).collect();
        if k < 30 {
            // two columns of one type
            let same: Vec<usize> = (0..n).filter(|i| tys[*i] == tys[c] && *i != c).collect();
            if let Some(&d) = same.get(self.rng.gen_range(0..same.len().max(1))) {
                return match self.rng.gen_range(0..6) {
                    0 => Predicate::ColumnsEq(c, d),
                    1 => Predicate::ColumnsNe(c, d),
                    2 => Predicate::ColumnsLt(c, d),
                    3 => Predicate::ColumnsGt(c, d),
                    4 => Predicate::ColumnsLe(c, d),
                    _ => Predicate::ColumnsGe(c, d),
                };
            }
        }
        if k < 45 && !ints.is_empty() {
            let col = ints[self.rng.gen_range(0..ints.len())];
            let names: Vec<String> = ints.iter().map(|i| format!("X{i}")).collect();
            let map: HashMap<String, usize> = ints.iter().map(|i| (format!("X{i}"), *i)).collect();
            let e = self.ast_arith(&names, 2);
            let op = [ComparisonOp::Equal, ComparisonOp::NotEqual, ComparisonOp::LessThan, ComparisonOp::LessOrEqual,
                      ComparisonOp::GreaterThan, ComparisonOp::GreaterOrEqual][self.rng.gen_range(0..6)].clone();
            return if self.rng.gen_bool(0.5) {
                Predicate::ColumnCompareArith(col, op, e, map)
            } else {
                Predicate::ArithCompareConst(e, op, self.rng.gen_range(0..6), map)
            };
        }
        let op = self.rng.gen_range(0..6);
        match tys[c] {
            Ty::I => {
                let v = self.rng.gen_range(0..4);
                match op {
                    0 => Predicate::ColumnEqConst(c, v),
                    1 => Predicate::ColumnNeConst(c, v),
                    2 => Predicate::ColumnGtConst(c, v),
                    3 => Predicate::ColumnLtConst(c, v),
                    4 => Predicate::ColumnGeConst(c, v),
                    _ => Predicate::ColumnLeConst(c, v),
                }
            }
            Ty::S => {
                let v = STRS[self.rng.gen_range(0..STRS.len())].to_string();
                match op {
                    0 => Predicate::ColumnEqStr(c, v),
                    1 => Predicate::ColumnNeStr(c, v),
                    2 => Predicate::ColumnGtStr(c, v),
                    3 => Predicate::ColumnLtStr(c, v),
                    4 => Predicate::ColumnGeStr(c, v),
                    _ => Predicate::ColumnLeStr(c, v),
                }
            }
            Ty::F => {
                let v = [0.5, 1.0, 1.5, 2.0][self.rng.gen_range(0..4)];
                match op {
                    0 => Predicate::ColumnEqFloat(c, v),
                    1 => Predicate::ColumnNeFloat(c, v),
                    2 => Predicate::ColumnGtFloat(c, v),
                    3 => Predicate::ColumnLtFloat(c, v),
                    4 => Predicate::ColumnGeFloat(c, v),
                    _ => Predicate::ColumnLeFloat(c, v),
                }
            }
            Ty::B => {
                let v = self.rng.gen_bool(0.5);
                if op % 2 == 0 { Predicate::ColumnEqBool(c, v) } else { Predicate::ColumnNeBool(c, v) }
            }
        }
    }

    /// a node and the types of its output columns
    fn node(&mut self, depth: usize) -> (IRNode, Vec<Ty>) {
        let k = if depth == 0 { 0 } else { self.rng.gen_range(0..100) };
        if k < 12 {
            let rs = rels();
            let (name, tys) = rs[self.rng.gen_range(0..rs.len())].clone();
            let schema: Vec<String> = tys.iter().map(|_| self.name()).collect();
            return (IRNode::Scan { relation: name.to_string(), schema }, tys);
        }
        if k < 30 {
            let (input, tys) = self.node(depth - 1);
            let m = self.rng.gen_range(1..=tys.len().min(3));
            let projection: Vec<usize> = (0..m).map(|_| self.rng.gen_range(0..tys.len())).collect();
            let schema = input.output_schema();
            let output_schema: Vec<String> = projection.iter().map(|p| schema[*p].clone()).collect();
            let out: Vec<Ty> = projection.iter().map(|p| tys[*p]).collect();
            return (IRNode::Map { input: Box::new(input), projection, output_schema }, out);
        }
        if k < 50 {
            let (input, tys) = self.node(depth - 1);
            let predicate = self.pred(&tys, 2);
            return (IRNode::Filter { input: Box::new(input), predicate }, tys);
        }
        if k < 68 || (k >= 68 && k < 76) {
            // join / antijoin on 1-2 key pairs of equal type
            let (left, lt) = self.node(depth - 1);
            let (right, rt) = self.node(depth - 1);
            let mut lk = vec![];
            let mut rk = vec![];
            for _ in 0..self.rng.gen_range(1..=2) {
                let i = self.rng.gen_range(0..lt.len());
                let cands: Vec<usize> = (0..rt.len()).filter(|j| rt[*j] == lt[i]).collect();
                if let Some(&j) = cands.get(self.rng.gen_range(0..cands.len().max(1))) {
                    // a right column is a key at most once (what the IR builder produces)
                    if !rk.contains(&j) {
                        lk.push(i);
                        rk.push(j);
                    }
                }
            }
            if lk.is_empty() {
                return (left, lt);
            }
            if k < 68 {
                // the executor's join row: every left column, then the right columns that are not keys
                let mut output_schema = left.output_schema();
                let rs = right.output_schema();
                let mut tys = lt.clone();
                for j in 0..rt.len() {
                    if !rk.contains(&j) {
                        output_schema.push(rs[j].clone());
                        tys.push(rt[j]);
                    }
                }
                return (IRNode::Join { left: Box::new(left), right: Box::new(right), left_keys: lk, right_keys: rk, output_schema }, tys);
            }
            let output_schema = left.output_schema();
            return (IRNode::Antijoin { left: Box::new(left), right: Box::new(right), left_keys: lk, right_keys: rk, output_schema }, lt);
        }
        if k < 82 {
            let (input, tys) = self.node(depth - 1);
            return (IRNode::Distinct { input: Box::new(input) }, tys);
        }
        if k < 88 {
            // union of two nodes projected to a common column type list
            let (a, at) = self.node(depth - 1);
            let (b, bt) = self.node(depth - 1);
            let ty = at[0];
            let bj: Vec<usize> = (0..bt.len()).filter(|j| bt[*j] == ty).collect();
            if bj.is_empty() {
                return (a, at);
            }
            let pa = IRNode::Map { output_schema: vec![a.output_schema()[0].clone()], input: Box::new(a), projection: vec![0] };
            let j = bj[self.rng.gen_range(0..bj.len())];
            let pb = IRNode::Map { output_schema: vec![b.output_schema()[j].clone()], input: Box::new(b), projection: vec![j] };
            return (IRNode::Union { inputs: vec![pa, pb] }, vec![ty]);
        }
        if k < 94 {
            let (input, tys) = self.node(depth - 1);
            let mut expressions = vec![];
            let mut out = tys.clone();
            for _ in 0..self.rng.gen_range(1..=2) {
                if let Some(e) = self.arith(&tys, 2) {
                    expressions.push((self.name(), e));
                    out.push(Ty::I);
                }
            }
            if expressions.is_empty() {
                return (input, tys);
            }
            return (IRNode::Compute { input: Box::new(input), expressions }, out);
        }
        // aggregate over a duplicate-free input (the multiplicity of intermediate rows is not part of
        // a plan's denotation as a relation)
        let (input, tys) = self.node(depth - 1);
        let ints: Vec<usize> = (0..tys.len()).filter(|i| tys[*i] == Ty::I).collect();
        if ints.is_empty() {
            return (input, tys);
        }
        let ng = self.rng.gen_range(0..=1.min(tys.len() - 1));
        let group_by: Vec<usize> = (0..ng).map(|_| self.rng.gen_range(0..tys.len())).collect();
        let f = [AggregateFunction::Count, AggregateFunction::Sum, AggregateFunction::Min, AggregateFunction::Max,
                 AggregateFunction::CountDistinct][self.rng.gen_range(0..5)].clone();
        let col = ints[self.rng.gen_range(0..ints.len())];
        let schema = input.output_schema();
        let mut output_schema: Vec<String> = group_by.iter().map(|g| schema[*g].clone()).collect();
        output_schema.push(self.name());
        let mut out: Vec<Ty> = group_by.iter().map(|g| tys[*g]).collect();
        out.push(Ty::I);
        (IRNode::Aggregate { input: Box::new(IRNode::Distinct { input: Box::new(input) }), group_by, aggregations: vec![(f, col)], output_schema }, out)
    }
}

// ---------------------------------------------------------------- running

fn exec(ir: &IRNode, db: &BTreeMap<String, Vec<Tuple>>, semiring: Option<SemiringType>) -> J {
    let r = catch_unwind(AssertUnwindSafe(|| {
        let mut cg = CodeGenerator::new();
        for (r, ts) in db {
            cg.add_input(r.clone(), ts.clone());
        }
        if let Some(s) = semiring {
            cg.set_semiring_type(s);
        }
        cg.execute(ir)
    }));
    match r {
        Ok(Ok(rows)) => json!({"ok": true, "rows": enc_rows(&rows), "err": ""}),
        Ok(Err(e)) => json!({"ok": false, "rows": [], "err": e.chars().take(160).collect::<String>()}),
        Err(p) => json!({"ok": false, "rows": [], "err": format!("panic: {}", crate::engine::panic_msg(p))}),
    }
}

fn pass<F: FnOnce() -> (IRNode, Option<SemiringType>)>(f: F) -> Result<(IRNode, Option<SemiringType>), String> {
    catch_unwind(AssertUnwindSafe(f)).map_err(crate::engine::panic_msg)
}

fn judge_plan(case: u64, idx: usize, origin: &str, before: &IRNode, db: &BTreeMap<String, Vec<Tuple>>, text: &str) -> Option<String> {
    let bj = plan_json(before);
    if !supported(&bj) {
        return None;
    }
    let mut afters = serde_json::Map::new();
    let mut execs = serde_json::Map::new();
    execs.insert("before".into(), exec(before, db, None));
    let b = before.clone();
    let passes: Vec<(&str, Result<(IRNode, Option<SemiringType>), String>)> = vec![
        ("join_planning", pass(|| (JoinPlanner::new().plan_joins(b.clone()), None))),
        ("boolean_specialization", pass(|| {
            let (ir, ann) = BooleanSpecializer::new().specialize(b.clone());
            (ir, Some(ann.semiring))
        })),
        ("optimizer", pass(|| (Optimizer::new().optimize(b.clone()), None))),
        ("pipeline", pass(|| {
            let ir = JoinPlanner::new().plan_joins(b.clone());
            let (ir, ann) = BooleanSpecializer::new().specialize(ir);
            (Optimizer::new().optimize(ir), Some(ann.semiring))
        })),
    ];
    for (name, r) in passes {
        match r {
            Ok((ir, sem)) => {
                let j = plan_json(&ir);
                let sup = supported(&j);
                afters.insert(name.into(), json!({"ok": true, "supported": sup, "plan": if sup { j } else { json!({"op": "scan", "rel": "a", "ar": 2}) },
                                                  "changed": ir != *before}));
                execs.insert(name.into(), exec(&ir, db, sem));
            }
            Err(p) => {
                afters.insert(name.into(), json!({"ok": false, "supported": false, "plan": {"op": "scan", "rel": "a", "ar": 2}, "changed": false, "panic": p}));
                execs.insert(name.into(), json!({"ok": false, "rows": [], "err": "pass panicked"}));
            }
        }
    }
    let dbj: serde_json::Map<String, J> = db.iter().map(|(r, ts)| (r.clone(), enc_rows(ts))).collect();
    Some(json!({"ev": "plan", "case": case, "idx": idx, "origin": origin, "text": text, "db": dbj, "before": bj,
                "after": afters, "exec": execs}).to_string())
}

fn rand_db(rng: &mut StdRng) -> BTreeMap<String, Vec<Tuple>> {
    let mut db = BTreeMap::new();
    for (name, tys) in rels() {
        let n = rng.gen_range(0..5);
        let mut ts: Vec<Tuple> = vec![];
        for _ in 0..n {
            let t = Tuple::new(tys.iter().map(|ty| rand_val(rng, *ty)).collect());
            if !ts.contains(&t) {
                ts.push(t);
            }
        }
        db.insert(name.to_string(), ts);
    }
    db
}

/// drive-plans --out <trace> --seed S --random N [--programs <ndjson>] [--depth D]
pub fn main(args: &BTreeMap<String, String>) {
    let out = args.get("out").expect("--out");
    let seed: u64 = args.get("seed").map(|s| s.parse().unwrap()).unwrap_or(1);
    let nrand: u64 = args.get("random").map(|s| s.parse().unwrap()).unwrap_or(0);
    let depth: usize = args.get("depth").map(|s| s.parse().unwrap()).unwrap_or(4);
    std::panic::set_hook(Box::new(|_| {}));
    let mut f = std::io::BufWriter::new(std::fs::File::create(out).unwrap());
    let mut case = 0u64;
    for i in 0..nrand {
        case += 1;
        let mut g = Gen { rng: StdRng::seed_from_u64(seed.wrapping_mul(1_000_003).wrapping_add(i)), fresh: 0 };
        let (ir, _) = g.node(depth);
        let db = rand_db(&mut g.rng);
        if let Some(l) = judge_plan(case, 0, "random_tree", &ir, &db, "") {
            writeln!(f, "{l}").unwrap();
        }
    }
    if let Some(p) = args.get("programs") {
        for line in std::fs::read_to_string(p).unwrap().lines().filter(|l| !l.trim().is_empty()) {
            let c: J = serde_json::from_str(line).unwrap();
            case += 1;
            let mut rng = StdRng::seed_from_u64(seed.wrapping_mul(7919).wrapping_add(case));
            let db = rand_db(&mut rng);
            let src = c["source"].as_str().unwrap_or("").to_string();
            let irs = catch_unwind(AssertUnwindSafe(|| {
                let mut e = inputlayer::IQLEngine::new();
                for (r, ts) in &db {
                    e.add_tuples(r, ts.clone());
                }
                e.parse(&src).map_err(|x| x.to_string())?;
                e.build_ir(false).map_err(|x| x.to_string())?;
                Ok::<Vec<IRNode>, String>(e.ir_nodes().to_vec())
            }));
            if let Ok(Ok(irs)) = irs {
                let base: Vec<&str> = rels().iter().map(|r| r.0).collect();
                for (idx, ir) in irs.iter().enumerate() {
                    // only plans over base relations denote something by themselves
                    let pj = plan_json(ir);
                    if !only_scans(&pj, &base) {
                        continue;
                    }
                    if let Some(l) = judge_plan(case, idx, "ir_builder", ir, &db, &src) {
                        writeln!(f, "{l}").unwrap();
                    }
                }
            }
        }
    }
    drop(f);
    std::process::exit(0);
}

fn only_scans(j: &J, base: &[&str]) -> bool {
    match j {
        J::Object(o) => {
            if o.get("op").and_then(|x| x.as_str()) == Some("scan") {
                return base.contains(&o["rel"].as_str().unwrap_or(""));
            }
            o.values().all(|v| only_scans(v, base))
        }
        J::Array(a) => a.iter().all(|v| only_scans(v, base)),
        _ => true,
    }
}

//! The harness's own abstract syntax of IQL rules: printed as text for the
//! engine, as JSON for the specification.  No engine code is involved here.
use rand::rngs::StdRng;
use rand::seq::SliceRandom;
use rand::Rng;
use serde_json::{json, Value as J};
use std::collections::{BTreeMap, BTreeSet};

#[derive(Clone, Debug, PartialEq, Eq, PartialOrd, Ord)]
pub enum V {
    I(i64),
    S(String),
}
impl V {
    pub fn json(&self) -> J {
        match self {
            V::I(n) => json!(["i", n]),
            V::S(s) => json!(["s", s]),
        }
    }
    pub fn text(&self) -> String {
        match self {
            V::I(n) => n.to_string(),
            V::S(s) => format!("\"{s}\""),
        }
    }
    pub fn value(&self) -> inputlayer::value::Value {
        match self {
            V::I(n) => inputlayer::value::Value::Int64(*n),
            V::S(s) => inputlayer::value::Value::string(s),
        }
    }
}

#[derive(Clone, Debug, PartialEq)]
pub enum Term {
    Var(String),
    Const(V),
    Wild,
    Agg(String, String),
}
#[derive(Clone, Debug, PartialEq)]
pub enum Expr {
    T(Term),
    Bin(String, Box<Expr>, Box<Expr>),
}
#[derive(Clone, Debug, PartialEq)]
pub enum Lit {
    Pos(String, Vec<Term>),
    Neg(String, Vec<Term>),
    Cmp(String, Expr, Expr),
    Asg(String, Expr),
}
#[derive(Clone, Debug, PartialEq)]
pub struct Clause {
    pub hr: String,
    pub ha: Vec<Term>,
    pub body: Vec<Lit>,
}

impl Term {
    pub fn json(&self) -> J {
        match self {
            Term::Var(n) => json!({"t":"v","n":n}),
            Term::Const(c) => json!({"t":"c","c":c.json()}),
            Term::Wild => json!({"t":"_"}),
            Term::Agg(f, n) => json!({"t":"agg","f":f,"n":n}),
        }
    }
    pub fn text(&self) -> String {
        match self {
            Term::Var(n) => n.clone(),
            Term::Const(c) => c.text(),
            Term::Wild => "_".into(),
            Term::Agg(f, n) => format!("{f}<{n}>"),
        }
    }
}
impl Expr {
    pub fn json(&self) -> J {
        match self {
            Expr::T(t) => t.json(),
            Expr::Bin(op, l, r) => json!({"t":"bin","op":op,"l":l.json(),"r":r.json()}),
        }
    }
    pub fn text(&self) -> String {
        match self {
            Expr::T(t) => t.text(),
            Expr::Bin(op, l, r) => format!("{} {} {}", l.text(), op, r.text()),
        }
    }
    pub fn vars(&self, out: &mut BTreeSet<String>) {
        match self {
            Expr::T(Term::Var(n)) => {
                out.insert(n.clone());
            }
            Expr::T(_) => {}
            Expr::Bin(_, l, r) => {
                l.vars(out);
                r.vars(out);
            }
        }
    }
}
fn args_text(a: &[Term]) -> String {
    a.iter().map(Term::text).collect::<Vec<_>>().join(", ")
}
impl Lit {
    pub fn json(&self) -> J {
        match self {
            Lit::Pos(r, a) => json!({"k":"pos","r":r,"a":a.iter().map(Term::json).collect::<Vec<_>>()}),
            Lit::Neg(r, a) => json!({"k":"neg","r":r,"a":a.iter().map(Term::json).collect::<Vec<_>>()}),
            Lit::Cmp(op, l, r) => json!({"k":"cmp","op":op,"l":l.json(),"r":r.json()}),
            Lit::Asg(v, e) => json!({"k":"asg","v":v,"e":e.json()}),
        }
    }
    pub fn text(&self) -> String {
        match self {
            Lit::Pos(r, a) => format!("{r}({})", args_text(a)),
            Lit::Neg(r, a) => format!("!{r}({})", args_text(a)),
            Lit::Cmp(op, l, r) => format!("{} {} {}", l.text(), op, r.text()),
            Lit::Asg(v, e) => format!("{v} = {}", e.text()),
        }
    }
}
impl Clause {
    pub fn json(&self) -> J {
        json!({"h":{"r":self.hr,"a":self.ha.iter().map(Term::json).collect::<Vec<_>>()},
               "b":self.body.iter().map(Lit::json).collect::<Vec<_>>()})
    }
    pub fn text(&self) -> String {
        format!(
            "{}({}) <- {}",
            self.hr,
            args_text(&self.ha),
            self.body.iter().map(Lit::text).collect::<Vec<_>>().join(", ")
        )
    }
    pub fn has_agg(&self) -> bool {
        self.ha.iter().any(|t| matches!(t, Term::Agg(..)))
    }
    pub fn has_asg(&self) -> bool {
        self.body.iter().any(|l| matches!(l, Lit::Asg(..)))
    }
    pub fn pos_rels(&self) -> Vec<&String> {
        self.body.iter().filter_map(|l| if let Lit::Pos(r, _) = l { Some(r) } else { None }).collect()
    }
    pub fn neg_rels(&self) -> Vec<&String> {
        self.body.iter().filter_map(|l| if let Lit::Neg(r, _) = l { Some(r) } else { None }).collect()
    }
}

pub type Edb = BTreeMap<String, BTreeSet<Vec<V>>>;

#[derive(Clone, Debug)]
pub struct Case {
    pub clauses: Vec<Clause>,
    pub q: String,
    pub edb: Edb,
    pub arity: BTreeMap<String, usize>,
}

pub fn prog_json(cs: &[Clause]) -> J {
    J::Array(cs.iter().map(Clause::json).collect())
}
pub fn prog_text(cs: &[Clause]) -> String {
    cs.iter().map(Clause::text).collect::<Vec<_>>().join("\n")
}
pub fn edb_json(e: &Edb) -> J {
    let mut m = serde_json::Map::new();
    for (r, ts) in e {
        m.insert(r.clone(), J::Array(ts.iter().map(|t| J::Array(t.iter().map(V::json).collect())).collect()));
    }
    J::Object(m)
}

/// Dependency analysis used only to *filter generated cases* (the specification
/// has its own, independent definition and the pipeline cross-checks them).
pub struct Deps {
    pub reach: BTreeSet<(String, String)>,
}
impl Deps {
    pub fn new(cs: &[Clause]) -> Deps {
        let mut e: BTreeSet<(String, String)> = BTreeSet::new();
        for c in cs {
            for l in &c.body {
                match l {
                    Lit::Pos(r, _) | Lit::Neg(r, _) => {
                        e.insert((c.hr.clone(), r.clone()));
                    }
                    _ => {}
                }
            }
        }
        let mut reach = e.clone();
        loop {
            let mut add = vec![];
            for (a, b) in &reach {
                for (c, d) in &e {
                    if b == c && !reach.contains(&(a.clone(), d.clone())) {
                        add.push((a.clone(), d.clone()));
                    }
                }
            }
            if add.is_empty() {
                break;
            }
            reach.extend(add);
        }
        Deps { reach }
    }
    pub fn same_scc(&self, a: &str, b: &str) -> bool {
        self.reach.contains(&(a.to_string(), b.to_string())) && self.reach.contains(&(b.to_string(), a.to_string()))
    }
    pub fn recursive(&self, a: &str) -> bool {
        self.reach.contains(&(a.to_string(), a.to_string()))
    }
}

/// Stratified with aggregation treated like negation; arithmetic only outside
/// recursive components (termination).
pub fn acceptable(cs: &[Clause]) -> bool {
    let d = Deps::new(cs);
    for c in cs {
        for r in c.neg_rels() {
            if d.same_scc(&c.hr, r) {
                return false;
            }
        }
        if c.has_agg() {
            if d.recursive(&c.hr) {
                return false;
            }
            for r in c.pos_rels() {
                if d.same_scc(&c.hr, r) {
                    return false;
                }
            }
        }
        if c.has_asg() && d.recursive(&c.hr) {
            return false;
        }
    }
    true
}

pub struct GenOpts {
    pub max_idb: usize,
    pub max_clauses: usize,
    pub p_neg: f64,
    pub p_rec: f64,
    pub p_mutual: f64,
    pub p_agg: f64,
    pub p_cmp: f64,
    pub p_asg: f64,
    pub p_const: f64,
    pub p_wild: f64,
    pub p_str: f64,
    pub p_sibling: f64,
    pub dom: i64,
}
impl Default for GenOpts {
    fn default() -> Self {
        GenOpts {
            max_idb: 4,
            max_clauses: 3,
            p_neg: 0.25,
            p_rec: 0.3,
            p_mutual: 0.12,
            p_agg: 0.15,
            p_cmp: 0.3,
            p_asg: 0.15,
            p_const: 0.12,
            p_wild: 0.08,
            p_str: 0.1,
            p_sibling: 0.1,
            dom: 4,
        }
    }
}

const VARS: [&str; 6] = ["X", "Y", "Z", "W", "U", "T"];
const AGGS: [&str; 6] = ["count", "sum", "min", "max", "avg", "count_distinct"];

fn gen_edb(rng: &mut StdRng, o: &GenOpts, arity: &BTreeMap<String, usize>, strcols: &BTreeSet<(String, usize)>) -> Edb {
    let mut edb = Edb::new();
    for (r, &a) in arity.iter().filter(|(r, _)| r.starts_with('e')) {
        let n = match a {
            1 => rng.gen_range(1..=o.dom as usize),
            2 => rng.gen_range(2..=10),
            _ => rng.gen_range(4..=14),
        };
        let mut s = BTreeSet::new();
        for _ in 0..n {
            let t: Vec<V> = (0..a)
                .map(|i| {
                    if strcols.contains(&(r.clone(), i)) {
                        V::S(["a", "b", "c"][rng.gen_range(0..3)].to_string())
                    } else {
                        V::I(rng.gen_range(0..o.dom))
                    }
                })
                .collect();
            s.insert(t);
        }
        edb.insert(r.clone(), s);
    }
    edb
}

/// One random case.  IDB relations are p0..pk (pk is the query: its first
/// clause is the last "first occurrence" of a head, the engine's convention),
/// EDB relations ea..ec.
pub fn gen_case(rng: &mut StdRng, o: &GenOpts) -> Case {
    loop {
        if let Some(c) = try_gen(rng, o) {
            return c;
        }
    }
}

fn try_gen(rng: &mut StdRng, o: &GenOpts) -> Option<Case> {
    let n_edb = rng.gen_range(1..=3);
    let n_idb = rng.gen_range(1..=o.max_idb);
    let mut arity: BTreeMap<String, usize> = BTreeMap::new();
    let mut strcols: BTreeSet<(String, usize)> = BTreeSet::new();
    let edbs: Vec<String> = (0..n_edb).map(|i| format!("e{}", (b'a' + i as u8) as char)).collect();
    for e in &edbs {
        let a = *[1usize, 2, 2, 2, 3].choose(rng).unwrap();
        arity.insert(e.clone(), a);
        for i in 0..a {
            if rng.gen_bool(o.p_str) {
                strcols.insert((e.clone(), i));
            }
        }
    }
    let idbs: Vec<String> = (0..n_idb).map(|i| format!("p{i}")).collect();
    for p in &idbs {
        arity.insert(p.clone(), *[1usize, 1, 2, 2, 2, 3].choose(rng).unwrap());
    }
    // column types: track which IDB columns may carry strings so comparisons
    // and arithmetic are only generated on integer variables.
    let mut clauses: Vec<Clause> = vec![];
    let mut idb_str: BTreeSet<(String, usize)> = BTreeSet::new();
    // mutual recursion makes column typing circular; forbid strings then
    let mutual_possible = o.p_mutual > 0.0;
    if mutual_possible && rng.gen_bool(0.5) {
        strcols.clear();
    }
    for (pi, p) in idbs.iter().enumerate() {
        let pa = arity[p];
        let is_agg = pi > 0 && pa >= 1 && rng.gen_bool(o.p_agg) || (pi == 0 && rng.gen_bool(o.p_agg / 2.0));
        let ncl = if is_agg { 1 } else { rng.gen_range(1..=o.max_clauses) };
        let mut head_str_cols: BTreeSet<usize> = BTreeSet::new();
        // relation of the first atom of the head's first clause: a later "sibling" clause may start with
        // the same relation (two join clauses of one head over a common leading relation, each with its
        // own negated atom - the shape in which per-clause helper relations of a rewrite can collide)
        let mut first_rel: Option<String> = None;
        for ci in 0..ncl {
            let sib_clause = !is_agg && ci > 0 && first_rel.is_some() && rng.gen_bool(o.p_sibling);
            // ---- body atoms
            let natoms = *[1usize, 1, 2, 2, 2, 3].choose(rng).unwrap();
            let natoms = if sib_clause || (ci == 0 && ncl > 1 && o.p_sibling > 0.3) { natoms.max(2) } else { natoms };
            let mut body: Vec<Lit> = vec![];
            let mut bound: Vec<String> = vec![];
            let mut strvars: BTreeSet<String> = BTreeSet::new();
            let mut intvars: BTreeSet<String> = BTreeSet::new();
            for ai in 0..natoms {
                let bound_before: Vec<String> = bound.clone();
                // choose relation
                let mut cands: Vec<String> = edbs.clone();
                cands.extend(idbs[..pi].iter().cloned());
                let rel = if sib_clause && ai == 0 {
                    first_rel.clone().unwrap()
                } else if !is_agg && ci > 0 && ai == 0 && rng.gen_bool(o.p_rec) {
                    p.clone()
                } else if !is_agg && ci > 0 && rng.gen_bool(o.p_rec / 2.0) {
                    p.clone()
                } else if !is_agg && pi + 1 < n_idb && rng.gen_bool(o.p_mutual) && strcols.is_empty() {
                    idbs[rng.gen_range(pi + 1..n_idb)].clone()
                } else {
                    cands.choose(rng).unwrap().clone()
                };
                let ra = arity[&rel];
                let mut args = vec![];
                for i in 0..ra {
                    let is_str = strcols.contains(&(rel.clone(), i))
                        || idb_str.contains(&(rel.clone(), i))
                        || (rel == *p && head_str_cols.contains(&i));
                    let x: f64 = rng.gen();
                    let t = if x < o.p_const {
                        if is_str {
                            Term::Const(V::S(["a", "b"][rng.gen_range(0..2)].to_string()))
                        } else {
                            Term::Const(V::I(rng.gen_range(0..o.dom)))
                        }
                    } else if x < o.p_const + o.p_wild {
                        Term::Wild
                    } else {
                        // reuse a bound var of the right type (join) or fresh
                        let src = if rng.gen_bool(0.12) { &bound } else { &bound_before };
                        let reuse: Vec<&String> = src
                            .iter()
                            .filter(|v| if is_str { strvars.contains(*v) } else { intvars.contains(*v) })
                            .collect();
                        if !reuse.is_empty() && rng.gen_bool(0.5) {
                            Term::Var((*reuse.choose(rng).unwrap()).clone())
                        } else {
                            let fresh: Vec<&&str> = VARS.iter().filter(|v| !bound.iter().any(|b| b == **v)).collect();
                            if fresh.is_empty() {
                                Term::Wild
                            } else {
                                let v = fresh[0].to_string();
                                bound.push(v.clone());
                                if is_str {
                                    strvars.insert(v.clone());
                                } else {
                                    intvars.insert(v.clone());
                                }
                                Term::Var(v)
                            }
                        }
                    };
                    args.push(t);
                }
                if ci == 0 && ai == 0 && rel != *p {
                    first_rel = Some(rel.clone());
                }
                body.push(Lit::Pos(rel, args));
            }
            if bound.is_empty() {
                return None;
            }
            // ---- assignment
            let ints: Vec<String> = intvars.iter().cloned().collect();
            let mut asg_var: Option<String> = None;
            if !ints.is_empty() && rng.gen_bool(o.p_asg) {
                let a = ints.choose(rng).unwrap().clone();
                let op = *["+", "-", "*"].choose(rng).unwrap();
                let rhs = if ints.len() > 1 && rng.gen_bool(0.5) {
                    Expr::T(Term::Var(ints.choose(rng).unwrap().clone()))
                } else {
                    Expr::T(Term::Const(V::I(rng.gen_range(1..4))))
                };
                let e = Expr::Bin(op.to_string(), Box::new(Expr::T(Term::Var(a))), Box::new(rhs));
                body.push(Lit::Asg("N".into(), e));
                asg_var = Some("N".into());
            }
            // ---- comparison
            if !ints.is_empty() && rng.gen_bool(o.p_cmp) {
                let a = ints.choose(rng).unwrap().clone();
                let op = *["<", "<=", ">", ">=", "=", "!="].choose(rng).unwrap();
                let rhs = if ints.len() > 1 && rng.gen_bool(0.5) {
                    let b = ints.iter().filter(|v| **v != a).collect::<Vec<_>>().choose(rng).unwrap().to_string();
                    Expr::T(Term::Var(b))
                } else {
                    Expr::T(Term::Const(V::I(rng.gen_range(0..o.dom))))
                };
                body.push(Lit::Cmp(op.to_string(), Expr::T(Term::Var(a)), rhs));
            }
            // ---- negation (relation from EDB or strictly lower IDB)
            if rng.gen_bool(if sib_clause || (ci == 0 && ncl > 1 && o.p_sibling > 0.3) { 0.7 } else { o.p_neg }) {
                let mut cands: Vec<String> = edbs.clone();
                cands.extend(idbs[..pi].iter().cloned());
                let rel = cands.choose(rng).unwrap().clone();
                let ra = arity[&rel];
                let mut args = vec![];
                let mut ok = true;
                for i in 0..ra {
                    let is_str = strcols.contains(&(rel.clone(), i)) || idb_str.contains(&(rel.clone(), i));
                    let pool: Vec<&String> =
                        bound.iter().filter(|v| if is_str { strvars.contains(*v) } else { intvars.contains(*v) }).collect();
                    if !pool.is_empty() && rng.gen_bool(0.75) {
                        args.push(Term::Var((*pool.choose(rng).unwrap()).clone()));
                    } else if rng.gen_bool(0.5) {
                        args.push(Term::Wild);
                    } else if is_str {
                        args.push(Term::Const(V::S("a".into())));
                    } else {
                        args.push(Term::Const(V::I(rng.gen_range(0..o.dom))));
                    }
                    if args.is_empty() {
                        ok = false;
                    }
                }
                if !args.iter().any(|t| matches!(t, Term::Var(_))) {
                    ok = false;
                }
                if ok {
                    // put the negation at a random position after the first atom
                    let pos = rng.gen_range(1..=body.len());
                    body.insert(pos, Lit::Neg(rel, args));
                }
            }
            // ---- head
            let mut ha = vec![];
            let mut pool: Vec<String> = bound.clone();
            if let Some(n) = &asg_var {
                pool.push(n.clone());
            }
            for i in 0..pa {
                if is_agg && i == pa - 1 {
                    // aggregate over an integer variable (count may take any)
                    // avg is a float: only in the query head, where it is compared with a tolerance
                    let mut f = AGGS.choose(rng).unwrap().to_string();
                    if f == "avg" && pi + 1 < n_idb {
                        f = "sum".to_string();
                    }
                    let cand: Vec<String> = if f == "count" || f == "count_distinct" {
                        bound.clone()
                    } else {
                        ints.clone()
                    };
                    if cand.is_empty() {
                        return None;
                    }
                    ha.push(Term::Agg(f, cand.choose(rng).unwrap().clone()));
                    continue;
                }
                // later clauses must agree with the first clause's column types
                let want_str = ci > 0 && head_str_cols.contains(&i);
                let want_int = ci > 0 && !head_str_cols.contains(&i);
                let cand: Vec<&String> = pool
                    .iter()
                    .filter(|v| {
                        let s = strvars.contains(*v);
                        if want_str {
                            s
                        } else if want_int {
                            !s
                        } else {
                            true
                        }
                    })
                    .collect();
                if !cand.is_empty() && (is_agg || !rng.gen_bool(o.p_const / 2.0)) {
                    let v = (*cand.choose(rng).unwrap()).clone();
                    if strvars.contains(&v) {
                        head_str_cols.insert(i);
                    }
                    ha.push(Term::Var(v));
                } else if is_agg {
                    return None;
                } else if want_str {
                    ha.push(Term::Const(V::S("a".into())));
                } else if cand.is_empty() && !want_int && ci == 0 {
                    return None;
                } else {
                    ha.push(Term::Const(V::I(rng.gen_range(0..o.dom))));
                }
            }
            // aggregated variable must not also be a group key of the same name? allowed.
            clauses.push(Clause { hr: p.clone(), ha, body });
        }
        for i in head_str_cols {
            idb_str.insert((p.clone(), i));
        }
    }
    if !acceptable(&clauses) {
        return None;
    }
    // string columns flowing through mutual recursion are excluded above; make
    // sure no integer comparison touches a string column that was only
    // discovered later (forward references to higher IDBs have no strings).
    let mut q = idbs.last().unwrap().clone();
    // The server turns `?p(1, Y)` into `__query__(_c0, Y) <- p(_c0, Y), _c0 = 1`; that
    // form (and only that form) triggers the magic-sets rewriting for bound
    // recursive queries.
    if rng.gen_bool(0.3) {
        let target = q.clone();
        let ar = arity[&target];
        let mut args = vec![];
        let mut body_extra = vec![];
        let names = ["X", "Y", "Z"];
        // an avg column is a float (compared with a tolerance): never bound to a constant
        let has_avg = clauses.iter().any(|c| c.hr == target && c.ha.iter().any(|t| matches!(t, Term::Agg(f, _) if f == "avg")));
        for i in 0..ar {
            if !has_avg && rng.gen_bool(0.45) {
                let v = format!("_c{i}");
                let c = if idb_str.contains(&(target.clone(), i)) {
                    V::S(["a", "b"][rng.gen_range(0..2)].to_string())
                } else {
                    V::I(rng.gen_range(0..o.dom))
                };
                body_extra.push(Lit::Cmp("=".into(), Expr::T(Term::Var(v.clone())), Expr::T(Term::Const(c))));
                args.push(Term::Var(v));
            } else {
                args.push(Term::Var(names[i].to_string()));
            }
        }
        let mut body = vec![Lit::Pos(target, args.clone())];
        body.extend(body_extra);
        clauses.push(Clause { hr: "__query__".into(), ha: args, body });
        arity.insert("__query__".into(), ar);
        q = "__query__".into();
    }
    let edb = gen_edb(rng, o, &arity, &strcols);
    Some(Case { clauses, q, edb, arity })
}

/// All orders of the clauses that keep `q`'s first clause the last "first
/// occurrence of a head" (sampled when there are many).
pub fn permutations(rng: &mut StdRng, cs: &[Clause], q: &str, max: usize) -> Vec<Vec<Clause>> {
    let mut out: Vec<Vec<Clause>> = vec![];
    let mut tries = 0;
    while out.len() < max && tries < max * 20 {
        tries += 1;
        let mut p = cs.to_vec();
        p.shuffle(rng);
        // the query is the head of the last clause
        if p.last().map(|c| c.hr.as_str()) != Some(q) {
            continue;
        }
        if !out.contains(&p) && p != cs {
            out.push(p);
        }
    }
    out
}

//! drive-vecops (C26): LSH bucket purity under cache events and concurrent use,
//! probe sequences, distance and quantisation laws on integer-valued vectors.
use inputlayer::vector_ops as vo;
use rand::rngs::StdRng;
use rand::{Rng, SeedableRng};
use serde_json::{json, Value as J};
use std::collections::BTreeMap;
use std::io::Write;
use std::sync::{Arc, Mutex};

fn vj(v: &[f32]) -> J {
    J::Array(v.iter().map(|x| json!(*x as i64)).collect())
}
fn class(d: f64) -> &'static str {
    if d.is_nan() {
        "nan"
    } else if d <= -1e-6 {
        "neg"
    } else if d.abs() < 1e-6 {
        // rounding noise of a float formula is not a sign (accuracy is outside this technique)
        "zero"
    } else if d <= 2.0 {
        "pos_le2"
    } else {
        "gt2"
    }
}
fn bits(d: f64) -> String {
    format!("b{:016x}", d.to_bits())
}
fn gen(rng: &mut StdRng, dim: usize, _big: bool) -> Vec<f32> {
    let r = if rng.gen_bool(0.2) { 1000 } else { 4 };
    let z = rng.gen_bool(0.06);
    (0..dim).map(|_| if z { 0.0 } else { rng.gen_range(-r..=r) as f32 }).collect()
}

pub fn main(args: &BTreeMap<String, String>) {
    let out = args.get("out").expect("--out");
    let n: usize = args.get("n").map(|s| s.parse().unwrap()).unwrap_or(100);
    let seed: u64 = args.get("seed").map(|s| s.parse().unwrap()).unwrap_or(1);
    let mut rng = StdRng::seed_from_u64(seed);
    let mut f = std::io::BufWriter::new(std::fs::File::create(out).unwrap());
    std::panic::set_hook(Box::new(|_| {}));
    for case in 1..=n {
        writeln!(f, "{}", json!({"ev":"case","case":case})).unwrap();
        let dim = rng.gen_range(1..=6usize);
        // ---- (i) bucket purity: sequential history with cache events
        let pool: Vec<Vec<f32>> = (0..4).map(|_| gen(&mut rng, dim, false)).collect();
        for _ in 0..rng.gen_range(6..=20) {
            match rng.gen_range(0..10) {
                0 => {
                    vo::clear_lsh_cache();
                    writeln!(f, "{}", json!({"ev":"cache","case":case,"what":"clear"})).unwrap();
                }
                1 => {
                    let sz = [0usize, 1, 2, 64][rng.gen_range(0..4)];
                    vo::configure_lsh_cache_size(sz);
                    writeln!(f, "{}", json!({"ev":"cache","case":case,"what":"resize","size":sz})).unwrap();
                }
                2 => {
                    vo::prewarm_lsh_cache(rng.gen_range(0..3), [4usize, 8][rng.gen_range(0..2)], dim);
                    writeln!(f, "{}", json!({"ev":"cache","case":case,"what":"prewarm"})).unwrap();
                }
                _ => {
                    let v = &pool[rng.gen_range(0..pool.len())];
                    let t = rng.gen_range(0..3i64);
                    let h = [1usize, 4, 8, 12][rng.gen_range(0..4)];
                    let b = vo::lsh_bucket(v, t, h);
                    writeln!(f, "{}", json!({"ev":"bucket","case":case,"v":vj(v),"table":t,"n":h,"out":b,"thr":0})).unwrap();
                }
            }
        }
        // ---- concurrent use: three callers and one thread clearing / resizing the cache
        if case % 3 == 0 {
            let log: Arc<Mutex<Vec<J>>> = Arc::new(Mutex::new(vec![]));
            let mut hs = vec![];
            for thr in 1..=3u64 {
                let pool = pool.clone();
                let log = log.clone();
                let s = seed.wrapping_mul(31).wrapping_add(case as u64 * 7 + thr);
                hs.push(std::thread::spawn(move || {
                    let mut r = StdRng::seed_from_u64(s);
                    for _ in 0..12 {
                        let v = &pool[r.gen_range(0..pool.len())];
                        let t = r.gen_range(0..3i64);
                        let h = [1usize, 4, 8, 12][r.gen_range(0..4)];
                        let b = vo::lsh_bucket(v, t, h);
                        log.lock().unwrap().push(json!({"ev":"bucket","case":case,"v":vj(v),"table":t,"n":h,"out":b,"thr":thr}));
                    }
                }));
            }
            hs.push(std::thread::spawn(move || {
                for i in 0..8 {
                    if i % 2 == 0 {
                        vo::clear_lsh_cache();
                    } else {
                        vo::configure_lsh_cache_size([1usize, 2, 64][i % 3]);
                    }
                    std::thread::yield_now();
                }
            }));
            for h in hs {
                let _ = h.join();
            }
            for r in log.lock().unwrap().iter() {
                writeln!(f, "{r}").unwrap();
            }
        }
        vo::configure_lsh_cache_size(64);
        // ---- (ii) probe sequences
        for _ in 0..3 {
            let h = [1usize, 3, 4, 8, 12][rng.gen_range(0..5)];
            let b = rng.gen_range(0..(1i64 << h));
            let np = rng.gen_range(0..=12usize);
            let p = vo::lsh_probes(b, h, np);
            writeln!(f, "{}", json!({"ev":"probes","case":case,"bucket":b,"n":h,"np":np,"out":p})).unwrap();
        }
        // ---- (iii) distances and quantisation on integer-valued vectors
        for _ in 0..4 {
            let a = gen(&mut rng, dim, false);
            let b = if rng.gen_bool(0.2) { a.clone() } else { gen(&mut rng, dim, false) };
            let d = |g: fn(&[f32], &[f32]) -> f64, x: &[f32], y: &[f32]| g(x, y);
            for (name, g) in [("euclidean", vo::euclidean_distance as fn(&[f32], &[f32]) -> f64),
                              ("cosine", vo::cosine_distance), ("manhattan", vo::manhattan_distance)] {
                let (ab, ba, aa) = (d(g, &a, &b), d(g, &b, &a), d(g, &a, &a));
                writeln!(f, "{}", json!({"ev":"dist","case":case,"f":name,"a":vj(&a),"b":vj(&b),"same":a==b,
                    "ab":bits(ab),"ba":bits(ba),"cab":class(ab),"caa":class(aa),
                    "azero": a.iter().all(|x| *x == 0.0), "bzero": b.iter().all(|x| *x == 0.0)})).unwrap();
            }
            let qs = vo::quantize_vector_symmetric(&a);
            let ql = vo::quantize_vector_linear(&a);
            writeln!(f, "{}", json!({"ev":"quant","case":case,"x":vj(&a),
                "sym":qs.iter().map(|x| *x as i64).collect::<Vec<_>>(),"lin":ql.iter().map(|x| *x as i64).collect::<Vec<_>>()})).unwrap();
        }
    }
}

//! drive-rules (C09): every case is a rule (one or more clauses of one head) over
//! given base facts.  Recorded per case:
//!  * the print / re-parse round trip of every clause through the real parser and
//!    `Display` (Debug renderings of both syntax trees);
//!  * the answer of `?head(..)` when the clauses are submitted inline in the query
//!    program, as session rules, as persistent rules, and as persistent rules after
//!    a restart - each against its own graph holding the same facts.
//! The trace is judged by spec/RuleTrace.tla.
use crate::hscen::open_world;
use crate::val;
use inputlayer::protocol::wire::{QueryResult, WireValue};
use serde_json::{json, Value as J};
use std::collections::BTreeMap;
use std::io::Write;
use std::panic::{catch_unwind, AssertUnwindSafe};
use std::path::Path;

/// exact rendering of a returned value: the kind and every bit matter here
fn wire_exact(v: &WireValue) -> J {
    match v {
        WireValue::Null => json!(["n"]),
        WireValue::Int32(n) => json!(["i32", n.to_string()]),
        WireValue::Int64(n) => json!(["i64", n.to_string()]),
        WireValue::Float64(f) => json!(["f", format!("bits:{:016x}", f.to_bits())]),
        WireValue::String(s) => json!(["s", s]),
        WireValue::Bool(b) => json!(["b", b.to_string()]),
        WireValue::Timestamp(t) => json!(["ts", t.to_string()]),
        WireValue::Vector(v) => json!(["v", v.iter().map(|x| format!("bits:{:08x}", x.to_bits())).collect::<Vec<_>>()]),
        WireValue::VectorInt8(v) => json!(["v8", v.iter().map(|x| x.to_string()).collect::<Vec<_>>()]),
        WireValue::Bytes(b) => json!(["bytes", b.len().to_string()]),
    }
}

fn answer(r: Result<Result<QueryResult, String>, Box<dyn std::any::Any + Send>>) -> J {
    match r {
        Ok(Ok(q)) => {
            let mut rows: Vec<J> = q.rows.iter().map(|t| J::Array(t.values.iter().map(wire_exact).collect())).collect();
            rows.sort_by_key(|r| r.to_string());
            // the same rows in the specification's loose encoding (<<"i", 5>>), for Datalog!Answer
            let lrows: Vec<J> = q.rows.iter().map(|t| J::Array(t.values.iter().map(crate::hscen::wire).collect())).collect();
            json!({"ok": true, "rows": rows, "lrows": lrows, "err": ""})
        }
        Ok(Err(e)) => json!({"ok": false, "rows": [], "err": e.chars().take(160).collect::<String>()}),
        Err(p) => json!({"ok": false, "rows": [], "err": format!("panic: {}", crate::engine::panic_msg(p))}),
    }
}

pub fn run_case(c: &J, root: &Path) -> String {
    let case = c["case"].as_u64().unwrap_or(0);
    let dir = root.join(format!("r{case}"));
    let _ = std::fs::remove_dir_all(&dir);
    std::fs::create_dir_all(&dir).unwrap();
    let clauses: Vec<String> = c["clauses"].as_array().unwrap().iter().map(|x| x.as_str().unwrap().to_string()).collect();
    // 1. print / re-parse
    let mut rt_recs = vec![];
    let mut accepted = true;
    for t in &clauses {
        match catch_unwind(AssertUnwindSafe(|| inputlayer::parser::parse_rule(t))) {
            Ok(Ok(r1)) => {
                let printed = format!("{r1}");
                let d1 = format!("{r1:?}");
                let (reparse_ok, d2, err) = match catch_unwind(AssertUnwindSafe(|| inputlayer::parser::parse_rule(&printed))) {
                    Ok(Ok(r2)) => (true, format!("{r2:?}"), String::new()),
                    Ok(Err(e)) => (false, String::new(), e),
                    Err(p) => (false, String::new(), format!("panic: {}", crate::engine::panic_msg(p))),
                };
                rt_recs.push(json!({"text": t, "parsed": true, "printed": printed, "reparse_ok": reparse_ok, "d1": d1, "d2": d2,
                                    "err": err.chars().take(160).collect::<String>()}));
            }
            Ok(Err(e)) => {
                accepted = false;
                rt_recs.push(json!({"text": t, "parsed": false, "printed": "", "reparse_ok": false, "d1": "", "d2": "",
                                    "err": e.chars().take(160).collect::<String>()}));
            }
            Err(p) => {
                accepted = false;
                rt_recs.push(json!({"text": t, "parsed": false, "printed": "", "reparse_ok": false, "d1": "", "d2": "",
                                    "err": format!("panic: {}", crate::engine::panic_msg(p))}));
            }
        }
    }
    let mut modes = serde_json::Map::new();
    if accepted {
        let rt = tokio::runtime::Builder::new_current_thread().enable_all().build().unwrap();
        let sc = json!({"cfg": {}});
        let mut w = match open_world(&dir, &sc) {
            Ok(w) => w,
            Err(e) => return json!({"ev":"openfail","case":case,"err":e}).to_string(),
        };
        let query = c["query"].as_str().unwrap().to_string();
        for g in ["ki", "ks", "kp"] {
            let st = w.handler.get_storage();
            let _ = st.create_knowledge_graph(g);
            if let Some(f) = c["facts"].as_object() {
                for (rel, ts) in f {
                    let tuples: Vec<inputlayer::value::Tuple> = ts.as_array().unwrap().iter().map(val::tuple_from_json).collect();
                    let _ = st.insert_tuples_into(g, rel, tuples);
                }
            }
        }
        // inline: the clauses and the query in one program
        let prog = format!("{}\n{}", clauses.join("\n"), query);
        modes.insert(
            "inline".into(),
            answer(catch_unwind(AssertUnwindSafe(|| rt.block_on(w.handler.execute_program(None, Some("ki".into()), prog, None))))),
        );
        // session rules
        let sess = match w.handler.create_session("ks") {
            Ok(sid) => {
                let mut failed: Option<String> = None;
                for t in &clauses {
                    let r = catch_unwind(AssertUnwindSafe(|| rt.block_on(w.handler.execute_program(Some(&sid), None, t.clone(), None))));
                    match r {
                        Ok(Ok(_)) => {}
                        Ok(Err(e)) => failed = Some(e),
                        Err(p) => failed = Some(format!("panic: {}", crate::engine::panic_msg(p))),
                    }
                }
                match failed {
                    Some(e) => json!({"ok": false, "rows": [], "err": format!("rule refused: {}", e.chars().take(140).collect::<String>())}),
                    None => answer(catch_unwind(AssertUnwindSafe(|| rt.block_on(w.handler.execute_program(Some(&sid), None, query.clone(), None))))),
                }
            }
            Err(e) => json!({"ok": false, "rows": [], "err": e}),
        };
        modes.insert("session".into(), sess);
        // persistent rules, before and after a restart
        let mut failed: Option<String> = None;
        for t in &clauses {
            let r = catch_unwind(AssertUnwindSafe(|| rt.block_on(w.handler.execute_program(None, Some("kp".into()), format!("+{t}"), None))));
            match r {
                Ok(Ok(_)) => {}
                Ok(Err(e)) => failed = Some(e),
                Err(p) => failed = Some(format!("panic: {}", crate::engine::panic_msg(p))),
            }
        }
        match failed {
            Some(e) => {
                let j = json!({"ok": false, "rows": [], "err": format!("rule refused: {}", e.chars().take(140).collect::<String>())});
                modes.insert("persistent".into(), j.clone());
                modes.insert("restarted".into(), j);
            }
            None => {
                modes.insert(
                    "persistent".into(),
                    answer(catch_unwind(AssertUnwindSafe(|| rt.block_on(w.handler.execute_program(None, Some("kp".into()), query.clone(), None))))),
                );
                w.handler.shutdown();
                drop(w);
                match open_world(&dir, &sc) {
                    Ok(nw) => {
                        w = nw;
                        modes.insert(
                            "restarted".into(),
                            answer(catch_unwind(AssertUnwindSafe(|| rt.block_on(w.handler.execute_program(None, Some("kp".into()), query.clone(), None))))),
                        );
                        drop(w);
                    }
                    Err(e) => {
                        modes.insert("restarted".into(), json!({"ok": false, "rows": [], "err": format!("reopen failed: {e}")}));
                    }
                }
            }
        }
        drop(rt);
    }
    let _ = std::fs::remove_dir_all(&dir);
    json!({"ev":"rule","case":case,"accepted":accepted,"clauses":rt_recs,"modes":modes,
           "infrag": c["ast"].is_array(), "ast": if c["ast"].is_array() { c["ast"].clone() } else { json!([]) },
           "edb": if c["edb"].is_object() { c["edb"].clone() } else { json!({}) }, "head": c["head"]}).to_string()
}

/// drive-rules --cases <ndjson> --out <trace> --root <dir> [--threads N]
pub fn main(args: &BTreeMap<String, String>) {
    let cases = args.get("cases").expect("--cases");
    let out = args.get("out").expect("--out");
    let root = std::path::PathBuf::from(args.get("root").expect("--root"));
    std::fs::create_dir_all(&root).unwrap();
    let threads: usize = args.get("threads").map(|s| s.parse().unwrap()).unwrap_or(12);
    let jobs: Vec<J> = std::fs::read_to_string(cases)
        .unwrap()
        .lines()
        .filter(|l| !l.trim().is_empty())
        .map(|l| serde_json::from_str(l).unwrap())
        .collect();
    let meta = jobs.clone();
    std::panic::set_hook(Box::new(|_| {}));
    let timeout = std::time::Duration::from_secs(args.get("job-timeout").map(|s| s.parse().unwrap()).unwrap_or(60));
    let res = crate::pool::run(jobs, threads, timeout, move |_, c| vec![run_case(&c, &root)]);
    let mut f = std::io::BufWriter::new(std::fs::File::create(out).unwrap());
    for (idx, o) in res {
        match o {
            crate::pool::Outcome::Done(lines) => {
                for l in lines {
                    writeln!(f, "{l}").unwrap();
                }
            }
            crate::pool::Outcome::Hung => {
                writeln!(f, "{}", json!({"ev":"hang","case":meta[idx]["case"]})).unwrap();
            }
        }
    }
    drop(f);
    std::process::exit(0);
}

//! dump-matrix: the real authorization decision for every statement / meta
//! command variant x every role (C28).  `kind_name` is an exhaustive match, so a
//! variant added to the code base is a build error here (a tool error), never a
//! silent gap; every kind must also be produced by at least one sample text.
use inputlayer::auth::{authorize_kg_operation, authorize_statement, KgRole, Role};
use inputlayer::statement::{parse_statement, MetaCommand, Statement};
use serde_json::{json, Value as J};
use std::collections::{BTreeMap, BTreeSet};

pub fn kind_name(s: &Statement) -> &'static str {
    match s {
        Statement::Insert(_) => "Insert",
        Statement::Delete(_) => "Delete",
        Statement::Update(_) => "Update",
        Statement::TypeDecl(_) => "TypeDecl",
        Statement::SessionRule(_) => "SessionRule",
        Statement::Fact(_) => "Fact",
        Statement::Query(_) => "Query",
        Statement::SchemaDecl(_) => "SchemaDecl",
        Statement::PersistentRule(_) => "PersistentRule",
        Statement::DeleteRelationOrRule(_) => "DeleteRelationOrRule",
        Statement::Meta(m) => match m {
            MetaCommand::KgShow => "KgShow",
            MetaCommand::KgList => "KgList",
            MetaCommand::KgCreate(_) => "KgCreate",
            MetaCommand::KgUse(_) => "KgUse",
            MetaCommand::KgDrop(_) => "KgDrop",
            MetaCommand::RelList => "RelList",
            MetaCommand::RelDescribe(_) => "RelDescribe",
            MetaCommand::RelDrop(_) => "RelDrop",
            MetaCommand::RuleList => "RuleList",
            MetaCommand::RuleQuery(_) => "RuleQuery",
            MetaCommand::RuleShowDef(_) => "RuleShowDef",
            MetaCommand::RuleDrop(_) => "RuleDrop",
            MetaCommand::RuleDropPrefix(_) => "RuleDropPrefix",
            MetaCommand::RuleEdit { .. } => "RuleEdit",
            MetaCommand::RuleClear(_) => "RuleClear",
            MetaCommand::RuleRemove { .. } => "RuleRemove",
            MetaCommand::SessionList => "SessionList",
            MetaCommand::SessionClear => "SessionClear",
            MetaCommand::SessionDrop(_) => "SessionDrop",
            MetaCommand::SessionDropName(_) => "SessionDropName",
            MetaCommand::IndexList => "IndexList",
            MetaCommand::IndexCreate(_) => "IndexCreate",
            MetaCommand::IndexDrop(_) => "IndexDrop",
            MetaCommand::IndexStats(_) => "IndexStats",
            MetaCommand::IndexRebuild(_) => "IndexRebuild",
            MetaCommand::ClearPrefix(_) => "ClearPrefix",
            MetaCommand::Compact => "Compact",
            MetaCommand::Status => "Status",
            MetaCommand::Debug(_) => "Debug",
            MetaCommand::Why(_) => "Why",
            MetaCommand::WhyFull(_) => "WhyFull",
            MetaCommand::WhyNot(_) => "WhyNot",
            MetaCommand::AgentMessage(_) => "AgentMessage",
            MetaCommand::AgentStart(_) => "AgentStart",
            MetaCommand::AgentSetup(_) => "AgentSetup",
            MetaCommand::AgentExamples => "AgentExamples",
            MetaCommand::Help => "Help",
            MetaCommand::Quit => "Quit",
            MetaCommand::Load { .. } => "Load",
            MetaCommand::UserList => "UserList",
            MetaCommand::UserCreate { .. } => "UserCreate",
            MetaCommand::UserDrop(_) => "UserDrop",
            MetaCommand::UserPassword { .. } => "UserPassword",
            MetaCommand::UserRole { .. } => "UserRole",
            MetaCommand::ApiKeyCreate(_) => "ApiKeyCreate",
            MetaCommand::ApiKeyList => "ApiKeyList",
            MetaCommand::ApiKeyRevoke(_) => "ApiKeyRevoke",
            MetaCommand::KgAclList(_) => "KgAclList",
            MetaCommand::KgAclGrant { .. } => "KgAclGrant",
            MetaCommand::KgAclRevoke { .. } => "KgAclRevoke",
        },
    }
}

/// Every kind the exhaustive match above names (kept in sync by `main`'s check).
pub const ALL_KINDS: [&str; 60] = [
    "Insert", "Delete", "Update", "TypeDecl", "SessionRule", "Fact", "Query", "SchemaDecl", "PersistentRule",
    "DeleteRelationOrRule", "KgShow", "KgList", "KgCreate", "KgUse", "KgDrop", "RelList", "RelDescribe", "RelDrop",
    "RuleList", "RuleQuery", "RuleShowDef", "RuleDrop", "RuleDropPrefix", "RuleEdit", "RuleClear", "RuleRemove",
    "SessionList", "SessionClear", "SessionDrop", "SessionDropName", "IndexList", "IndexCreate", "IndexDrop",
    "IndexStats", "IndexRebuild", "ClearPrefix", "Compact", "Status", "Debug", "Why", "WhyFull", "WhyNot",
    "AgentMessage", "AgentStart", "AgentSetup", "AgentExamples", "Help", "Quit", "Load", "UserList", "UserCreate",
    "UserDrop", "UserPassword", "UserRole", "ApiKeyCreate", "ApiKeyList", "ApiKeyRevoke", "KgAclList", "KgAclGrant",
    "KgAclRevoke",
];

/// Sample texts; several per kind where arguments could matter.
pub const SAMPLES: [&str; 78] = [
    "+e(1, 2)", "+e[(1, 2), (3, 4)]", "-e(1, 2)", "-e(X, Y) <- e(X, Y), X > 5", "-e(X, Y), +e(X, 0) <- e(X, Y), Y > 1",
    "type Pos: int", "p(X) <- e(X, Y)", "e(1, 2)", "?e(X, Y)", "?e(1, X), X > 2", "+emp(id: int, name: string)",
    "emp2(id: int)", "+p(X) <- e(X, Y)", "+p(X, Z) <- p(X, Y), e(Y, Z)", "-e", "-p",
    ".kg", ".kg list", ".kg create g9", ".kg use g9", ".kg drop g9", ".rel", ".rel e", ".rel drop e", ".rule", ".rule p",
    ".rule def p", ".rule drop p", ".rule drop prefix p", ".rule edit p 1 +p(X) <- e(X, X)", ".rule clear p", ".rule remove p 1",
    ".session", ".session clear", ".session drop 1", ".session drop p", ".index", ".index list",
    ".index create vi on docs(emb) type hnsw metric cosine", ".index drop vi", ".index stats vi", ".index rebuild vi",
    ".clear prefix tmp_", ".compact", ".status", ".debug ?e(X, Y)", ".why ?p(1)", ".why full ?p(1)", ".why_not p(1)",
    ".agent hello", ".agent start basics", ".agent setup basics", ".agent examples", ".help", ".quit", ".load f.iql",
    ".load f.iql --replace", ".user list", ".user create bob pw viewer", ".user create bob pw admin", ".user drop bob",
    ".user password bob pw2", ".user role bob editor", ".user role bob admin", ".apikey create k1", ".apikey list",
    ".apikey revoke k1", ".kg acl list", ".kg acl list g9", ".kg acl grant g9 bob viewer", ".kg acl grant g9 bob owner",
    ".kg acl revoke g9 bob", ".kg use _internal", ".kg drop _internal", ".kg create _internal", "+users(\"a\", \"b\", \"admin\")",
    "?users(A, B, C)", ".idx list",
];

pub fn main(args: &BTreeMap<String, String>) {
    let out = args.get("out").expect("--out");
    let mut cells: Vec<J> = vec![];
    let mut seen: BTreeSet<&'static str> = BTreeSet::new();
    let mut unparsed: Vec<&str> = vec![];
    let groles = [("viewer", Role::Viewer), ("editor", Role::Editor), ("admin", Role::Admin)];
    let kroles = [("viewer", KgRole::Viewer), ("editor", KgRole::Editor), ("owner", KgRole::Owner)];
    for text in SAMPLES.iter() {
        let Ok(stmt) = parse_statement(text) else {
            unparsed.push(text);
            continue;
        };
        let kind = kind_name(&stmt);
        seen.insert(kind);
        for (rn, r) in groles.iter() {
            cells.push(json!({"layer":"global","role":rn,"kind":kind,"text":text,"allowed":authorize_statement(r, &stmt).is_ok()}));
        }
        for (rn, r) in kroles.iter() {
            cells.push(json!({"layer":"kg","role":rn,"kind":kind,"text":text,"allowed":authorize_kg_operation(r, &stmt).is_ok()}));
        }
    }
    let missing: Vec<&str> = ALL_KINDS.iter().filter(|k| !seen.contains(*k)).cloned().collect();
    let rec = json!({"ev":"matrix","cells":cells,"kinds_seen":seen.iter().collect::<Vec<_>>(),"missing":missing,"unparsed":unparsed});
    std::fs::write(out, format!("{rec}\n")).unwrap();
}

//! Projection of engine values to the tagged JSON the TLA+ specifications read.
//! This file is part of the trusted base (see DESIGN.md 5.1).  Rules:
//! never emit a JSON float, a JSON null or an integer outside +-2^31.
use inputlayer::value::{Tuple, Value};
use serde_json::{json, Value as J};

#[derive(Clone, Copy, PartialEq)]
pub enum Mode {
    /// int widths collapsed to "i", floats scaled by 10^3 or class tokens
    Loose,
    /// every kind distinct, floats as bit patterns (opaque tokens)
    Exact,
}

fn int_json(n: i64) -> J {
    if n > -(1 << 31) && n < (1 << 31) - 1 {
        json!(n)
    } else {
        json!(format!("#{n}"))
    }
}

pub fn float_loose(f: f64) -> J {
    if f.is_nan() {
        json!("nan")
    } else if f == f64::INFINITY {
        json!("inf")
    } else if f == f64::NEG_INFINITY {
        json!("-inf")
    } else if f == 0.0 && f.is_sign_negative() {
        json!("-0")
    } else {
        let s = (f * 1000.0).round();
        if s.abs() < 2.0e9 {
            json!(s as i64)
        } else {
            json!(format!("#{f:e}"))
        }
    }
}

pub fn val(v: &Value, m: Mode) -> J {
    match v {
        Value::Int32(n) => {
            if m == Mode::Loose {
                json!(["i", int_json(*n as i64)])
            } else {
                json!(["i32", n.to_string()])
            }
        }
        Value::Int64(n) => {
            if m == Mode::Loose {
                json!(["i", int_json(*n)])
            } else {
                json!(["i64", n.to_string()])
            }
        }
        Value::Float64(f) => {
            if m == Mode::Loose {
                json!(["f", float_loose(*f)])
            } else {
                json!(["f", format!("bits:{:016x}", f.to_bits())])
            }
        }
        Value::String(s) => json!(["s", s.to_string()]),
        Value::Bool(b) => {
            if m == Mode::Loose {
                json!(["b", b])
            } else {
                json!(["b", b.to_string()])
            }
        }
        Value::Null => json!(["n"]),
        Value::Timestamp(t) => {
            if m == Mode::Loose {
                json!(["ts", int_json(*t)])
            } else {
                json!(["ts", t.to_string()])
            }
        }
        Value::Vector(v) => {
            if m == Mode::Loose {
                json!(["v", v.iter().map(|x| float_loose(*x as f64)).collect::<Vec<_>>()])
            } else {
                json!(["v", v.iter().map(|x| format!("bits:{:08x}", x.to_bits())).collect::<Vec<_>>()])
            }
        }
        Value::VectorInt8(v) => {
            if m == Mode::Loose {
                json!(["v8", v.iter().map(|x| *x as i64).collect::<Vec<_>>()])
            } else {
                json!(["v8", v.iter().map(|x| x.to_string()).collect::<Vec<_>>()])
            }
        }
    }
}

pub fn tuple(t: &Tuple, m: Mode) -> J {
    J::Array(t.values().iter().map(|v| val(v, m)).collect())
}

/// Rows in the order the engine returned them (order may matter to a spec).
pub fn rows(ts: &[Tuple], m: Mode) -> J {
    J::Array(ts.iter().map(|t| tuple(t, m)).collect())
}

/// A relation: sorted by JSON text and de-duplicated *only textually adjacent
/// equal rows are kept* -- duplicates are preserved so that a spec can see them.
pub fn relation(ts: &[Tuple], m: Mode) -> J {
    let mut v: Vec<(String, J)> = ts
        .iter()
        .map(|t| {
            let j = tuple(t, m);
            (j.to_string(), j)
        })
        .collect();
    v.sort_by(|a, b| a.0.cmp(&b.0));
    J::Array(v.into_iter().map(|x| x.1).collect())
}

/// Inverse for the generator's own values (only the kinds generators use).
pub fn from_json(j: &J) -> Value {
    let a = j.as_array().expect("tagged value");
    let tag = a[0].as_str().expect("tag");
    let num = |x: &J| -> i64 {
        if let Some(n) = x.as_i64() {
            n
        } else {
            x.as_str().unwrap().trim_start_matches('#').parse().unwrap()
        }
    };
    match tag {
        "i" | "i64" => Value::Int64(num(&a[1])),
        "i32" => Value::Int32(num(&a[1]) as i32),
        "s" => Value::string(a[1].as_str().unwrap()),
        "b" => Value::Bool(a[1].as_bool().unwrap_or_else(|| a[1].as_str() == Some("true"))),
        "n" => Value::Null,
        "ts" => Value::Timestamp(num(&a[1])),
        "f" => {
            let s = a[1].as_str();
            match s {
                Some("nan") => Value::Float64(f64::NAN),
                Some("inf") => Value::Float64(f64::INFINITY),
                Some("-inf") => Value::Float64(f64::NEG_INFINITY),
                Some("-0") => Value::Float64(-0.0),
                Some(b) if b.starts_with("bits:") => {
                    Value::Float64(f64::from_bits(u64::from_str_radix(&b[5..], 16).unwrap()))
                }
                _ => Value::Float64(a[1].as_i64().unwrap() as f64 / 1000.0),
            }
        }
        "v" => Value::vector(
            a[1].as_array()
                .unwrap()
                .iter()
                .map(|x| match x.as_str() {
                    Some(b) if b.starts_with("bits:") => f32::from_bits(u32::from_str_radix(&b[5..], 16).unwrap()),
                    _ => x.as_i64().unwrap() as f32 / 1000.0,
                })
                .collect(),
        ),
        "v8" => Value::vector_int8(a[1].as_array().unwrap().iter().map(|x| num(x) as i8).collect()),
        _ => panic!("unknown tag {tag}"),
    }
}

pub fn tuple_from_json(j: &J) -> Tuple {
    Tuple::new(j.as_array().unwrap().iter().map(from_json).collect())
}

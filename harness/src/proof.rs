//! drive-proof (C21, C22, C23): generated programs loaded as persistent rules
//! into a real Handler; `.why` for answer tuples and `.why_not` for candidate
//! tuples; the proof DAGs are recorded as the handler returns them.
use crate::hscen::{open_world, result_json};
use crate::prog::*;
use rand::rngs::StdRng;
use rand::{Rng, SeedableRng};
use serde_json::{json, Value as J};
use std::collections::BTreeMap;
use std::io::Write;
use std::panic::{catch_unwind, AssertUnwindSafe};

fn tuple_text(t: &[i64]) -> String {
    t.iter().map(|x| x.to_string()).collect::<Vec<_>>().join(", ")
}

pub fn run_case(case: usize, c: &Case, rng: &mut StdRng, root: &std::path::Path) -> J {
    let dir = root.join(format!("p{case}"));
    let _ = std::fs::remove_dir_all(&dir);
    std::fs::create_dir_all(&dir).unwrap();
    let rt = tokio::runtime::Builder::new_current_thread().enable_all().build().unwrap();
    let w = match open_world(&dir, &json!({})) {
        Ok(w) => w,
        Err(e) => return json!({"ev":"openfail","case":case,"err":e}),
    };
    let exec = |text: String| -> J {
        let r = catch_unwind(AssertUnwindSafe(|| rt.block_on(w.handler.execute_program(None, Some("default".into()), text, None))));
        match r {
            Ok(r) => result_json(&r),
            Err(p) => json!({"ok": false, "panic": crate::engine::panic_msg(p), "rows": []}),
        }
    };
    let mut setup_ok = true;
    for (rel, ts) in &c.edb {
        if ts.is_empty() {
            continue;
        }
        let body = ts
            .iter()
            .map(|t| format!("({})", t.iter().map(V::text).collect::<Vec<_>>().join(", ")))
            .collect::<Vec<_>>()
            .join(", ");
        let r = exec(format!("+{rel}[{body}]"));
        setup_ok &= r["ok"].as_bool().unwrap_or(false);
    }
    let mut reg_msgs = vec![];
    for cl in &c.clauses {
        let r = exec(format!("+{}", cl.text()));
        let ok = r["ok"].as_bool().unwrap_or(false)
            && !r["rows"].to_string().contains("rror")
            && !r["rows"].to_string().contains("ailed");
        if !ok {
            reg_msgs.push(r["rows"].to_string() + r["err"].as_str().unwrap_or(""));
        }
        setup_ok &= ok;
    }
    let ar = c.arity[&c.q];
    let vars: Vec<String> = (0..ar).map(|i| format!("V{i}")).collect();
    let ans = exec(format!("?{}({})", c.q, vars.join(", ")));
    let mut answers: Vec<Vec<i64>> = vec![];
    if let Some(rows) = ans["rows"].as_array() {
        for r in rows {
            let t: Vec<i64> = r.as_array().unwrap().iter().filter_map(|v| v[1].as_i64()).collect();
            if t.len() == ar {
                answers.push(t);
            }
        }
    }
    let mut why = vec![];
    for t in answers.iter().take(5) {
        let r = exec(format!(".why ?{}({})", c.q, tuple_text(t)));
        why.push(json!({"t": t, "ok": r["ok"].as_bool().unwrap_or(false), "err": r["err"].as_str().unwrap_or(""), "trees": r.get("proofs").cloned().unwrap_or(json!([]))}));
    }
    let mut whynot = vec![];
    let mut cands: Vec<Vec<i64>> = (0..5).map(|_| (0..ar).map(|_| rng.gen_range(0..4)).collect()).collect();
    for t in answers.iter().take(2) {
        cands.push(t.clone());
    }
    cands.sort();
    cands.dedup();
    for t in cands {
        let r = exec(format!(".why_not {}({})", c.q, tuple_text(&t)));
        whynot.push(json!({"t": t, "ok": r["ok"].as_bool().unwrap_or(false), "err": r["err"].as_str().unwrap_or(""), "trees": r.get("proofs").cloned().unwrap_or(json!([]))}));
    }
    drop(w);
    drop(rt);
    let _ = std::fs::remove_dir_all(&dir);
    json!({"ev":"proof","case":case,"text":prog_text(&c.clauses),"prog":prog_json(&c.clauses),"edb":edb_json(&c.edb),"q":c.q,
           "setup_ok":setup_ok,"reg_msgs":reg_msgs,"answers_ok":ans["ok"].as_bool().unwrap_or(false),"answers":answers,"why":why,"whynot":whynot})
}

pub fn main(args: &BTreeMap<String, String>) {
    let out = args.get("out").expect("--out");
    let n: usize = args.get("n").map(|s| s.parse().unwrap()).unwrap_or(50);
    let seed: u64 = args.get("seed").map(|s| s.parse().unwrap()).unwrap_or(1);
    let root = std::path::PathBuf::from(args.get("root").expect("--root"));
    std::fs::create_dir_all(&root).unwrap();
    let threads: usize = args.get("threads").map(|s| s.parse().unwrap()).unwrap_or(12);
    let mut rng = StdRng::seed_from_u64(seed);
    let o = GenOpts { p_agg: 0.0, p_str: 0.0, p_mutual: 0.0, p_asg: 0.08, max_idb: 3, ..GenOpts::default() };
    let mut jobs = vec![];
    for id in 1..=n {
        let mut c = gen_case(&mut rng, &o);
        // the proof commands take a plain relation: drop a generated __query__ rule
        if c.q == "__query__" {
            c.clauses.pop();
            c.q = c.clauses.last().unwrap().hr.clone();
        }
        jobs.push((id, c, rng.gen::<u64>()));
    }
    std::panic::set_hook(Box::new(|_| {}));
    let texts: Vec<(String, J, J)> = jobs.iter().map(|(_, c, _)| (prog_text(&c.clauses), edb_json(&c.edb), prog_json(&c.clauses))).collect();
    let res = crate::pool::run(jobs, threads, std::time::Duration::from_secs(args.get("job-timeout").map(|s| s.parse().unwrap()).unwrap_or(40)), move |_, (id, c, s)| {
        let mut r = StdRng::seed_from_u64(s);
        run_case(id, &c, &mut r, &root)
    });
    let mut f = std::io::BufWriter::new(std::fs::File::create(out).unwrap());
    for (idx, o) in res {
        match o {
            crate::pool::Outcome::Done(j) => writeln!(f, "{j}").unwrap(),
            crate::pool::Outcome::Hung => writeln!(f, "{}", json!({"ev":"hang","case":idx + 1,"text":texts[idx].0,"edb":texts[idx].1,"prog":texts[idx].2})).unwrap(),
        }
    }
    drop(f);
    std::process::exit(0);
}

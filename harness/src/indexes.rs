//! drive-indexes (C36): random histories on the real BloomFilter and HashIndex;
//! every call and its result is recorded, the specification keeps the abstract
//! content (spec/IndexTrace.tla).
use crate::val::{self, Mode};
use inputlayer::bloom_filter::BloomFilter;
use inputlayer::hash_index::{HashIndex, JoinKeySpec};
use inputlayer::value::{Tuple, Value};
use rand::rngs::StdRng;
use rand::{Rng, SeedableRng};
use serde_json::{json, Value as J};
use std::collections::BTreeMap;
use std::io::Write;

fn key(rng: &mut StdRng) -> Value {
    match rng.gen_range(0..7) {
        0 => Value::Int64(rng.gen_range(0..4)),
        1 => Value::Int32(rng.gen_range(0..4)),
        2 => Value::string(["a", "b", ""][rng.gen_range(0..3)]),
        3 => Value::Float64([0.0, -0.0, 1.5, f64::NAN][rng.gen_range(0..4)]),
        4 => Value::Bool(rng.gen_bool(0.5)),
        5 => Value::Null,
        _ => Value::Int64(rng.gen_range(0..4)),
    }
}

pub fn main(args: &BTreeMap<String, String>) {
    let out = args.get("out").expect("--out");
    let n: usize = args.get("n").map(|s| s.parse().unwrap()).unwrap_or(200);
    let seed: u64 = args.get("seed").map(|s| s.parse().unwrap()).unwrap_or(1);
    let mut rng = StdRng::seed_from_u64(seed);
    let mut f = std::io::BufWriter::new(std::fs::File::create(out).unwrap());
    std::panic::set_hook(Box::new(|_| {}));
    for case in 1..=n {
        if case % 2 == 0 {
            // ---- bloom filter
            let (bits, hashes, how) = match rng.gen_range(0..6) {
                0 => (0usize, 0usize, "params"),
                1 => (1, 1, "params"),
                2 => (rng.gen_range(1..64), rng.gen_range(1..5), "params"),
                3 => (8, 0, "params"),
                _ => (rng.gen_range(0..4), rng.gen_range(0..4), "new"),
            };
            let r = std::panic::catch_unwind(|| {
                if how == "params" {
                    BloomFilter::with_params(bits, hashes)
                } else {
                    BloomFilter::new([1usize, 2, 10, 1000][bits % 4], [0.01, 0.5, 0.999, 1e-9][hashes % 4])
                }
            });
            let mut bf = match r {
                Ok(b) => b,
                Err(_) => {
                    writeln!(f, "{}", json!({"ev":"bloom_new","case":case,"bits":bits,"hashes":hashes,"how":how,"ok":false})).unwrap();
                    continue;
                }
            };
            writeln!(f, "{}", json!({"ev":"bloom_new","case":case,"bits":bits,"hashes":hashes,"how":how,"ok":true})).unwrap();
            for _ in 0..rng.gen_range(3..14) {
                let k = key(&mut rng);
                let kj = val::val(&k, Mode::Exact);
                match rng.gen_range(0..10) {
                    0..=4 => {
                        let r = std::panic::catch_unwind(std::panic::AssertUnwindSafe(|| bf.insert(&k)));
                        writeln!(f, "{}", json!({"ev":"bloom_insert","case":case,"key":kj,"ok":r.is_ok()})).unwrap();
                    }
                    5 => {
                        bf.clear();
                        writeln!(f, "{}", json!({"ev":"bloom_clear","case":case})).unwrap();
                    }
                    _ => {
                        let r = std::panic::catch_unwind(std::panic::AssertUnwindSafe(|| bf.might_contain(&k)));
                        writeln!(f, "{}", json!({"ev":"bloom_query","case":case,"key":kj,"ok":r.is_ok(),"res":r.unwrap_or(false)})).unwrap();
                    }
                }
            }
        } else {
            // ---- hash index on column 0 (or columns 0,1) of small tuples
            let cols: Vec<usize> = if rng.gen_bool(0.3) { vec![0, 1] } else { vec![0] };
            let mut hi = HashIndex::new(JoinKeySpec::new("r", cols.clone()), [0usize, 1, 16][rng.gen_range(0..3)]);
            writeln!(f, "{}", json!({"ev":"hi_new","case":case,"cols":cols.iter().map(|c| c + 1).collect::<Vec<_>>()})).unwrap();
            // 40% of the tuples repeat one used before in this history (the index keeps duplicates:
            // inserting twice and removing once must leave one copy)
            let mut used: Vec<Tuple> = vec![];
            let mut mk = |rng: &mut StdRng| -> Tuple {
                if !used.is_empty() && rng.gen_bool(0.4) {
                    return used[rng.gen_range(0..used.len())].clone();
                }
                let t = Tuple::new(vec![key(rng), Value::Int64(rng.gen_range(0..2)), Value::Int64(rng.gen_range(0..3))]);
                used.push(t.clone());
                t
            };
            for _ in 0..rng.gen_range(4..16) {
                match rng.gen_range(0..12) {
                    0..=3 => {
                        let t = mk(&mut rng);
                        hi.insert(t.clone());
                        writeln!(f, "{}", json!({"ev":"hi_insert","case":case,"t":val::tuple(&t, Mode::Exact)})).unwrap();
                    }
                    4..=5 => {
                        let t = mk(&mut rng);
                        let r = hi.remove(&t);
                        writeln!(f, "{}", json!({"ev":"hi_remove","case":case,"t":val::tuple(&t, Mode::Exact),"res":r})).unwrap();
                    }
                    6 => {
                        let ts: Vec<Tuple> = (0..rng.gen_range(0..5)).map(|_| mk(&mut rng)).collect();
                        hi.build_from_tuples(ts.clone());
                        writeln!(f, "{}", json!({"ev":"hi_build","case":case,"ts":ts.iter().map(|t| val::tuple(t, Mode::Exact)).collect::<Vec<_>>()})).unwrap();
                    }
                    _ => {
                        let t = mk(&mut rng);
                        let k = Tuple::new(cols.iter().map(|c| t.get(*c).unwrap().clone()).collect());
                        let kj = val::tuple(&k, Mode::Exact);
                        let get: Vec<J> = hi.get(&k).map(|v| v.iter().map(|t| val::tuple(t, Mode::Exact)).collect()).unwrap_or_default();
                        let getb: Vec<J> = hi.get_with_bloom(&k).map(|v| v.iter().map(|t| val::tuple(t, Mode::Exact)).collect()).unwrap_or_default();
                        let probe: Vec<J> = hi.probe(&k).map(|t| val::tuple(t, Mode::Exact)).collect();
                        let might = hi.might_contain_key(&k);
                        writeln!(f, "{}", json!({"ev":"hi_lookup","case":case,"key":kj,"get":get,"get_bloom":getb,"probe":probe,"might":might,"len":hi.len()})).unwrap();
                    }
                }
            }
        }
    }
}

//! dump-values (C31): comparison / equality / hash matrices of a finite domain of
//! representative values of every kind, and of tuples over a sub-domain, as
//! computed by the real `Value` / `Tuple` implementations.
use crate::store::value_domain;
use crate::val;
use inputlayer::value::{Tuple, Value};
use serde_json::{json, Value as J};
use std::collections::hash_map::DefaultHasher;
use std::collections::BTreeMap;
use std::hash::{Hash, Hasher};

fn h<T: Hash>(t: &T) -> String {
    let mut s = DefaultHasher::new();
    t.hash(&mut s);
    format!("h{:016x}", s.finish())
}
fn ord(o: std::cmp::Ordering) -> i64 {
    match o {
        std::cmp::Ordering::Less => -1,
        std::cmp::Ordering::Equal => 0,
        std::cmp::Ordering::Greater => 1,
    }
}
fn matrices<T: Ord + Eq + Hash>(xs: &[T]) -> (Vec<Vec<i64>>, Vec<Vec<bool>>, Vec<String>) {
    let cmp = xs.iter().map(|a| xs.iter().map(|b| ord(a.cmp(b))).collect()).collect();
    let eq = xs.iter().map(|a| xs.iter().map(|b| a == b).collect()).collect();
    let hs = xs.iter().map(h).collect();
    (cmp, eq, hs)
}

pub fn main(args: &BTreeMap<String, String>) {
    let out = args.get("out").expect("--out");
    let mut dom: Vec<J> = value_domain();
    // a second NaN payload and duplicates of equal values built independently
    dom.push(json!(["f", "bits:7ff8000000000001"]));
    dom.push(json!(["f", "bits:fff8000000000000"]));
    dom.push(json!(["s", "a"]));
    dom.push(json!(["i64", 7]));
    dom.push(json!(["v", ["bits:3f800000"]]));
    let vals: Vec<Value> = dom.iter().map(val::from_json).collect();
    let names: Vec<J> = vals.iter().map(|v| val::val(v, val::Mode::Exact)).collect();
    let (cmp, eq, hs) = matrices(&vals);
    // tuples of arity 1..2 over a sub-domain that contains the delicate floats
    let sub: Vec<Value> = ["bits:0000000000000000", "bits:8000000000000000", "bits:7ff8000000000000", "bits:3ff8000000000000"]
        .iter()
        .map(|b| val::from_json(&json!(["f", b])))
        .chain([Value::Int64(7), Value::Int32(7), Value::string("a"), Value::Null])
        .collect();
    let mut tuples: Vec<Tuple> = vec![];
    for a in &sub {
        tuples.push(Tuple::new(vec![a.clone()]));
        for b in &sub {
            tuples.push(Tuple::new(vec![a.clone(), b.clone()]));
        }
    }
    let tnames: Vec<J> = tuples.iter().map(|t| val::tuple(t, val::Mode::Exact)).collect();
    let (tcmp, teq, ths) = matrices(&tuples);
    let rec1 = json!({"ev":"values","what":"value","names":names,"cmp":cmp,"eq":eq,"hash":hs});
    let rec2 = json!({"ev":"values","what":"tuple","names":tnames,"cmp":tcmp,"eq":teq,"hash":ths});
    std::fs::write(out, format!("{rec1}\n{rec2}\n")).unwrap();
}

//! drive-vecindex (C24, C25): random histories on the real HnswIndex; every call
//! and its observables are recorded; spec/VecIndexTrace.tla keeps the abstract
//! index (live id -> vector) and judges searches and state observations.
//! Vectors have small integer coordinates so that squared distances, L1
//! distances and dot products are exact integers for TLC; reported distances
//! are scaled by 100 and rounded.
use inputlayer::hnsw_index::HnswIndex;
use inputlayer::index_manager::{DistanceMetric, HnswConfig, Index};
use rand::rngs::StdRng;
use rand::{Rng, SeedableRng};
use serde_json::{json, Value as J};
use std::collections::BTreeMap;
use std::io::Write;
use std::panic::{catch_unwind, AssertUnwindSafe};

fn vecj(v: &[f32]) -> J {
    J::Array(v.iter().map(|x| json!(*x as i64)).collect())
}
fn dist(d: f64) -> J {
    if d.is_finite() && d.abs() < 1.0e6 {
        json!((d * 100.0).round() as i64)
    } else {
        json!(format!("#{d}"))
    }
}

fn observe(ix: &HnswIndex) -> J {
    json!({"len": ix.len(), "tomb": ix.tombstone_count(), "dim": ix.dimension(),
           "metric": format!("{:?}", ix.metric()).to_lowercase(), "m": ix.config().m, "efc": ix.config().ef_construction,
           "efs": ix.config().ef_search})
}

pub fn main(args: &BTreeMap<String, String>) {
    let out = args.get("out").expect("--out");
    let n: usize = args.get("n").map(|s| s.parse().unwrap()).unwrap_or(100);
    let seed: u64 = args.get("seed").map(|s| s.parse().unwrap()).unwrap_or(1);
    let root = std::path::PathBuf::from(args.get("root").expect("--root"));
    std::fs::create_dir_all(&root).unwrap();
    let mut rng = StdRng::seed_from_u64(seed);
    let mut f = std::io::BufWriter::new(std::fs::File::create(out).unwrap());
    std::panic::set_hook(Box::new(|_| {}));
    let metrics = [DistanceMetric::Euclidean, DistanceMetric::Cosine, DistanceMetric::DotProduct, DistanceMetric::Manhattan];
    for case in 1..=n {
        let metric = metrics[rng.gen_range(0..4)];
        let dim = rng.gen_range(1..=5usize);
        let cfg = HnswConfig { m: [4usize, 8, 16][rng.gen_range(0..3)], ef_construction: [20usize, 100][rng.gen_range(0..2)],
                               ef_search: [10usize, 50, 200][rng.gen_range(0..3)], metric };
        let mut ix = HnswIndex::new(cfg.clone());
        writeln!(f, "{}", json!({"ev":"new","case":case,"obs":observe(&ix)})).unwrap();
        let maxid = rng.gen_range(3..=14usize);
        let mut gen_vec = |rng: &mut StdRng| -> Vec<f32> {
            let z = rng.gen_bool(0.05);
            (0..dim).map(|_| if z { 0.0 } else { rng.gen_range(-4..=4) as f32 }).collect()
        };
        let steps = rng.gen_range(4..=22);
        // the vector each id was last inserted with: an insert repeats it in 30% of the cases
        // (unchanged upsert, re-insert of a deleted id with its old vector)
        let mut last: std::collections::HashMap<usize, Vec<f32>> = std::collections::HashMap::new();
        for _ in 0..steps {
            let x: f64 = rng.gen();
            if x < 0.4 {
                let id = rng.gen_range(1..=maxid);
                let v = match last.get(&id) {
                    Some(old) if rng.gen_bool(0.3) => old.clone(),
                    _ => gen_vec(&mut rng),
                };
                last.insert(id, v.clone());
                let r = catch_unwind(AssertUnwindSafe(|| ix.insert(id, &v)));
                let (ok, err) = match r {
                    Ok(Ok(())) => (true, String::new()),
                    Ok(Err(e)) => (false, e),
                    Err(p) => (false, format!("panic: {}", crate::engine::panic_msg(p))),
                };
                writeln!(f, "{}", json!({"ev":"insert","case":case,"id":id,"vec":vecj(&v),"ok":ok,"err":err,"obs":observe(&ix)})).unwrap();
            } else if x < 0.55 {
                let id = rng.gen_range(1..=maxid);
                let r = catch_unwind(AssertUnwindSafe(|| ix.delete(id)));
                writeln!(f, "{}", json!({"ev":"delete","case":case,"id":id,"ok":r.is_ok(),"obs":observe(&ix)})).unwrap();
                // half of the deletes of a known id are followed by: an insert of another id, the re-insert of the
                // deleted id with the vector it had, and a wide search (ordinary events, judged like any other)
                if let (Some(old), true) = (last.get(&id).cloned(), rng.gen_bool(0.5)) {
                    let other = 1 + (id % maxid);
                    let ov = gen_vec(&mut rng);
                    last.insert(other, ov.clone());
                    for (i, v) in [(other, ov), (id, old.clone())] {
                        let r = catch_unwind(AssertUnwindSafe(|| ix.insert(i, &v)));
                        let (ok, err) = match r {
                            Ok(Ok(())) => (true, String::new()),
                            Ok(Err(e)) => (false, e),
                            Err(p) => (false, format!("panic: {}", crate::engine::panic_msg(p))),
                        };
                        writeln!(f, "{}", json!({"ev":"insert","case":case,"id":i,"vec":vecj(&v),"ok":ok,"err":err,"obs":observe(&ix)})).unwrap();
                    }
                    let k = 12usize;
                    let r = catch_unwind(AssertUnwindSafe(|| ix.search(&old, k, Some(100))));
                    match r {
                        Ok(res) => writeln!(f, "{}", json!({"ev":"search","case":case,"q":vecj(&old),"k":k,"ef":100,"ok":true,
                            "res":res.iter().map(|(i, d)| json!([i, dist(*d)])).collect::<Vec<_>>(),"obs":observe(&ix)})).unwrap(),
                        Err(p) => writeln!(f, "{}", json!({"ev":"search","case":case,"q":vecj(&old),"k":k,"ef":100,
                            "ok":false,"err":crate::engine::panic_msg(p),"res":[],"obs":observe(&ix)})).unwrap(),
                    }
                }
            } else if x < 0.6 {
                let k = rng.gen_range(0..=4);
                let vs: Vec<(usize, Vec<f32>)> = (0..k).map(|_| (rng.gen_range(1..=maxid), gen_vec(&mut rng))).collect();
                // distinct ids (the API takes a list of (id, vector))
                let mut seen = std::collections::BTreeSet::new();
                let vs: Vec<(usize, Vec<f32>)> = vs.into_iter().filter(|(i, _)| seen.insert(*i)).collect();
                let r = catch_unwind(AssertUnwindSafe(|| ix.rebuild(&vs)));
                let ok = matches!(r, Ok(Ok(())));
                writeln!(f, "{}", json!({"ev":"rebuild","case":case,"vs":vs.iter().map(|(i, v)| json!([i, vecj(v)])).collect::<Vec<_>>(),
                    "ok":ok,"obs":observe(&ix)})).unwrap();
            } else if x < 0.68 {
                let d = root.join(format!("ix{case}"));
                let _ = std::fs::remove_dir_all(&d);
                std::fs::create_dir_all(&d).unwrap();
                let r = catch_unwind(AssertUnwindSafe(|| -> Result<HnswIndex, String> {
                    ix.save(&d)?;
                    HnswIndex::load(&d)
                }));
                match r {
                    Ok(Ok(nix)) => {
                        ix = nix;
                        writeln!(f, "{}", json!({"ev":"saveload","case":case,"ok":true,"obs":observe(&ix)})).unwrap();
                    }
                    Ok(Err(e)) => writeln!(f, "{}", json!({"ev":"saveload","case":case,"ok":false,"err":e,"obs":observe(&ix)})).unwrap(),
                    Err(p) => writeln!(f, "{}", json!({"ev":"saveload","case":case,"ok":false,"err":crate::engine::panic_msg(p),"obs":observe(&ix)})).unwrap(),
                }
                let _ = std::fs::remove_dir_all(&d);
            } else {
                let q = gen_vec(&mut rng);
                let k = rng.gen_range(1..=6usize);
                let ef = if rng.gen_bool(0.5) { None } else { Some([k, 20, 100][rng.gen_range(0..3)]) };
                let r = catch_unwind(AssertUnwindSafe(|| ix.search(&q, k, ef)));
                match r {
                    Ok(res) => writeln!(f, "{}", json!({"ev":"search","case":case,"q":vecj(&q),"k":k,
                        "ef":ef.unwrap_or(cfg.ef_search),"ok":true,
                        "res":res.iter().map(|(i, d)| json!([i, dist(*d)])).collect::<Vec<_>>(),"obs":observe(&ix)})).unwrap(),
                    Err(p) => writeln!(f, "{}", json!({"ev":"search","case":case,"q":vecj(&q),"k":k,"ef":ef.unwrap_or(cfg.ef_search),
                        "ok":false,"err":crate::engine::panic_msg(p),"res":[],"obs":observe(&ix)})).unwrap(),
                }
            }
        }
    }
}

//! drive-engine: generated programs through the real `IQLEngine`, one ndjson
//! record per case with every run (configuration / worker count / limit /
//! clause order / engine history) of that case.
use crate::prog::*;
use crate::val::{self, Mode};
use inputlayer::value::Tuple;
use inputlayer::{IQLEngine, OptimizationConfig};
use rand::rngs::StdRng;
use rand::{Rng, SeedableRng};
use serde_json::{json, Value as J};
use std::collections::BTreeMap;
use std::io::Write;
use std::panic::{catch_unwind, AssertUnwindSafe};

#[derive(Clone, Copy, Debug)]
pub struct Cfg {
    pub jp: bool,
    pub sip: bool,
    pub ss: bool,
    pub bs: bool,
    pub ms: bool,
    pub workers: usize,
    pub limit: usize,
}
impl Cfg {
    pub fn default() -> Cfg {
        Cfg { jp: true, sip: true, ss: true, bs: true, ms: true, workers: 1, limit: 0 }
    }
    pub fn from_bits(b: u32) -> Cfg {
        Cfg { jp: b & 1 != 0, sip: b & 2 != 0, ss: b & 4 != 0, bs: b & 8 != 0, ms: b & 16 != 0, workers: 1, limit: 0 }
    }
    pub fn json(&self) -> J {
        json!({"jp":self.jp as i32,"sip":self.sip as i32,"ss":self.ss as i32,"bs":self.bs as i32,"ms":self.ms as i32,
               "workers":self.workers,"limit":self.limit})
    }
    pub fn opt(&self) -> OptimizationConfig {
        OptimizationConfig {
            enable_join_planning: self.jp,
            enable_sip_rewriting: self.sip,
            enable_subplan_sharing: self.ss,
            enable_boolean_specialization: self.bs,
            enable_magic_sets: self.ms,
        }
    }
}

pub fn new_engine(cfg: &Cfg, edb: &Edb) -> IQLEngine {
    let mut e = IQLEngine::with_config(cfg.opt());
    e.set_num_workers(cfg.workers);
    e.set_max_result_rows(cfg.limit);
    for (r, ts) in edb {
        let tuples: Vec<Tuple> = ts.iter().map(|t| Tuple::new(t.iter().map(V::value).collect())).collect();
        e.add_tuples(r, tuples);
    }
    e
}

pub fn panic_msg(p: Box<dyn std::any::Any + Send>) -> String {
    if let Some(s) = p.downcast_ref::<&str>() {
        s.to_string()
    } else if let Some(s) = p.downcast_ref::<String>() {
        s.clone()
    } else {
        "panic".into()
    }
}

/// Result of one execution, as the specification reads it.
pub fn run_on(e: &mut IQLEngine, text: &str) -> (J, Option<Vec<Tuple>>) {
    let r = catch_unwind(AssertUnwindSafe(|| e.execute_tuples(text)));
    match r {
        Ok(Ok(rows)) => (json!({"ok":true,"rows":val::rows(&rows, Mode::Loose)}), Some(rows)),
        Ok(Err(err)) => (json!({"ok":false,"err":err,"rows":[]}), None),
        Err(p) => (json!({"ok":false,"panic":panic_msg(p),"rows":[]}), None),
    }
}

fn base_json(e: &IQLEngine, edb: &Edb) -> J {
    let mut m = serde_json::Map::new();
    for r in edb.keys() {
        let ts = e.input_tuples().get(r).cloned().unwrap_or_default();
        m.insert(r.clone(), val::relation(&ts, Mode::Loose));
    }
    J::Object(m)
}

pub struct Want {
    pub cfgs: bool,
    pub workers: bool,
    pub limits: bool,
    pub perms: bool,
}

pub fn drive_case(rng: &mut StdRng, id: usize, c: &Case, w: &Want) -> J {
    let text = prog_text(&c.clauses);
    let mut runs: Vec<J> = vec![];
    let mut push = |tag: &str, cfg: &Cfg, order: J, res: J, base: J| {
        runs.push(json!({"tag":tag,"cfg":cfg.json(),"order":order,"res":res,"base_after":base}));
    };
    // default and all-off always
    let d = Cfg::default();
    let mut e = new_engine(&d, &c.edb);
    let (res, rows) = run_on(&mut e, &text);
    let nrows = rows.as_ref().map(|r| r.len()).unwrap_or(0);
    push("default", &d, json!([]), res, base_json(&e, &c.edb));
    if w.cfgs {
        for b in 0..31u32 {
            let cfg = Cfg::from_bits(b);
            let mut e = new_engine(&cfg, &c.edb);
            let (res, _) = run_on(&mut e, &text);
            push("cfg", &cfg, json!([]), res, base_json(&e, &c.edb));
        }
    } else {
        let cfg = Cfg::from_bits(0);
        let mut e = new_engine(&cfg, &c.edb);
        let (res, _) = run_on(&mut e, &text);
        push("cfg", &cfg, json!([]), res, base_json(&e, &c.edb));
    }
    if w.workers {
        for wk in [2usize, 3, 4, 8] {
            let cfg = Cfg { workers: wk, ..d };
            let mut e = new_engine(&cfg, &c.edb);
            let (res, _) = run_on(&mut e, &text);
            push("workers", &cfg, json!([]), res, base_json(&e, &c.edb));
        }
    }
    if w.limits {
        let mut ns = vec![1usize, 2, 3, 5];
        if nrows > 0 {
            ns.push(nrows);
        }
        ns.push(nrows + 1);
        ns.sort();
        ns.dedup();
        for n in ns {
            for cfg in [Cfg { limit: n, ..d }, Cfg { limit: n, ..Cfg::from_bits(0) }] {
                let mut e = new_engine(&cfg, &c.edb);
                let (res, _) = run_on(&mut e, &text);
                push("limit", &cfg, json!([]), res, base_json(&e, &c.edb));
            }
        }
    }
    if w.perms {
        for p in permutations(rng, &c.clauses, &c.q, 5) {
            let mut e = new_engine(&d, &c.edb);
            let (res, _) = run_on(&mut e, &prog_text(&p));
            push("perm", &d, prog_json(&p), res, base_json(&e, &c.edb));
        }
        // a clause repeated
        if !c.clauses.is_empty() {
            let k = rng.gen_range(0..c.clauses.len());
            let mut p = c.clauses.clone();
            p.insert(k, c.clauses[k].clone());
            let mut e = new_engine(&d, &c.edb);
            let (res, _) = run_on(&mut e, &prog_text(&p));
            push("dup", &d, prog_json(&p), res, base_json(&e, &c.edb));
        }
        // engine history: other programs first on the same engine, then this one (twice)
        let mut e = new_engine(&d, &c.edb);
        for _ in 0..rng.gen_range(1..=2) {
            let mut other = gen_case(rng, &GenOpts::default());
            // same vocabulary: rename nothing, but only run it when every EDB it
            // uses exists with the same arity in this case
            other.edb = c.edb.clone();
            let ok = other
                .clauses
                .iter()
                .all(|cl| cl.body.iter().all(|l| match l {
                    Lit::Pos(r, a) | Lit::Neg(r, a) => {
                        !r.starts_with('e') || c.arity.get(r).map(|x| *x == a.len()).unwrap_or(false)
                    }
                    _ => true,
                }));
            if ok {
                let _ = run_on(&mut e, &prog_text(&other.clauses));
            }
        }
        // the same program with every integer constant shifted, first: state keyed by
        // relation / adornment but not by the constant (magic seeds, shared views)
        // would leak into the run that follows
        let shifted: Vec<Clause> = c.clauses.iter().map(shift_consts).collect();
        if shifted != c.clauses {
            let _ = run_on(&mut e, &prog_text(&shifted));
        }
        // a bound query on a recursive relation exercises magic sets seeds
        let (res, _) = run_on(&mut e, &text);
        push("reuse", &d, json!([]), res, base_json(&e, &c.edb));
        let (res, _) = run_on(&mut e, &text);
        push("reuse", &d, json!([]), res, base_json(&e, &c.edb));
    }
    let qa = c.clauses.iter().find(|cl| cl.hr == c.q).map(|cl| cl.ha.iter().map(Term::json).collect::<Vec<_>>()).unwrap();
    json!({"ev":"exec","case":id,"text":text,"prog":prog_json(&c.clauses),"q":c.q,"qa":qa,
           "qarity":c.arity[&c.q],"edb":edb_json(&c.edb),"runs":runs})
}

pub fn main(args: &BTreeMap<String, String>) {
    let n: usize = args.get("n").map(|s| s.parse().unwrap()).unwrap_or(100);
    let seed: u64 = args.get("seed").map(|s| s.parse().unwrap()).unwrap_or(1);
    let out = args.get("out").expect("--out");
    let focus = args.get("focus").map(|s| s.as_str()).unwrap_or("all");
    let mut o = GenOpts::default();
    let mut w = Want { cfgs: false, workers: false, limits: false, perms: false };
    match focus {
        "c01" => {}
        "c02" => {
            w.cfgs = true;
            o.p_sibling = 0.5;
        }
        "c03" => {
            w.workers = true;
            o.p_agg = 0.5;
            o.p_asg = 0.3;
        }
        "c04" => {
            w.perms = true;
            o.p_rec = 0.45;
            o.p_const = 0.2;
        }
        "c06" => {
            w.cfgs = true;
            o.p_agg = 0.9;
            o.p_wild = 0.2;
        }
        "c08" => {
            w.limits = true;
            o.p_neg = 0.4;
        }
        _ => {
            w = Want { cfgs: true, workers: true, limits: true, perms: true };
        }
    }
    let mut rng = StdRng::seed_from_u64(seed);
    let mut f = std::io::BufWriter::new(std::fs::File::create(out).unwrap());
    // silence panic backtraces of the code under test: they are data
    std::panic::set_hook(Box::new(|_| {}));
    for id in 1..=n {
        let c = gen_case(&mut rng, &o);
        let rec = drive_case(&mut rng, id, &c, &w);
        writeln!(f, "{rec}").unwrap();
    }
}

/// replay-engine: re-run recorded cases (program JSON + EDB) on the current tree.
pub fn replay(args: &BTreeMap<String, String>) {
    let inp = args.get("in").expect("--in");
    let out = args.get("out").expect("--out");
    let mut f = std::io::BufWriter::new(std::fs::File::create(out).unwrap());
    std::panic::set_hook(Box::new(|_| {}));
    let mut rng = StdRng::seed_from_u64(args.get("seed").map(|s| s.parse().unwrap()).unwrap_or(1));
    for line in std::fs::read_to_string(inp).unwrap().lines() {
        if line.trim().is_empty() {
            continue;
        }
        let r: J = serde_json::from_str(line).unwrap();
        let c = case_from_json(&r);
        let tags: Vec<String> = r["runs"]
            .as_array()
            .map(|a| a.iter().map(|x| x["tag"].as_str().unwrap_or("").to_string()).collect())
            .unwrap_or_default();
        let w = Want {
            cfgs: tags.iter().filter(|t| *t == "cfg").count() > 1 || tags.is_empty(),
            workers: tags.iter().any(|t| t == "workers") || tags.is_empty(),
            limits: tags.iter().any(|t| t == "limit") || tags.is_empty(),
            perms: tags.iter().any(|t| t == "perm" || t == "reuse" || t == "dup") || tags.is_empty(),
        };
        let rec = drive_case(&mut rng, r["case"].as_u64().unwrap_or(1) as usize, &c, &w);
        writeln!(f, "{rec}").unwrap();
    }
}

pub fn case_from_json(r: &J) -> Case {
    let clauses: Vec<Clause> = r["prog"].as_array().unwrap().iter().map(clause_from_json).collect();
    let mut edb = Edb::new();
    let mut arity = BTreeMap::new();
    for (k, v) in r["edb"].as_object().unwrap() {
        let mut s = std::collections::BTreeSet::new();
        for t in v.as_array().unwrap() {
            let tup: Vec<V> = t.as_array().unwrap().iter().map(v_from_json).collect();
            arity.insert(k.clone(), tup.len());
            s.insert(tup);
        }
        edb.insert(k.clone(), s);
    }
    for c in &clauses {
        arity.insert(c.hr.clone(), c.ha.len());
        for l in &c.body {
            if let Lit::Pos(r, a) | Lit::Neg(r, a) = l {
                arity.insert(r.clone(), a.len());
            }
        }
    }
    Case { clauses, q: r["q"].as_str().unwrap().to_string(), edb, arity }
}
fn v_from_json(j: &J) -> V {
    match j[0].as_str().unwrap() {
        "i" => V::I(j[1].as_i64().unwrap()),
        _ => V::S(j[1].as_str().unwrap().to_string()),
    }
}
fn term_from_json(j: &J) -> Term {
    match j["t"].as_str().unwrap() {
        "v" => Term::Var(j["n"].as_str().unwrap().into()),
        "c" => Term::Const(v_from_json(&j["c"])),
        "_" => Term::Wild,
        "agg" => Term::Agg(j["f"].as_str().unwrap().into(), j["n"].as_str().unwrap().into()),
        t => panic!("term {t}"),
    }
}
fn expr_from_json(j: &J) -> Expr {
    if j["t"] == "bin" {
        Expr::Bin(j["op"].as_str().unwrap().into(), Box::new(expr_from_json(&j["l"])), Box::new(expr_from_json(&j["r"])))
    } else {
        Expr::T(term_from_json(j))
    }
}
fn clause_from_json(j: &J) -> Clause {
    let args = |a: &J| a.as_array().unwrap().iter().map(term_from_json).collect::<Vec<_>>();
    Clause {
        hr: j["h"]["r"].as_str().unwrap().into(),
        ha: args(&j["h"]["a"]),
        body: j["b"]
            .as_array()
            .unwrap()
            .iter()
            .map(|l| match l["k"].as_str().unwrap() {
                "pos" => Lit::Pos(l["r"].as_str().unwrap().into(), args(&l["a"])),
                "neg" => Lit::Neg(l["r"].as_str().unwrap().into(), args(&l["a"])),
                "cmp" => Lit::Cmp(l["op"].as_str().unwrap().into(), expr_from_json(&l["l"]), expr_from_json(&l["r"])),
                "asg" => Lit::Asg(l["v"].as_str().unwrap().into(), expr_from_json(&l["e"])),
                k => panic!("lit {k}"),
            })
            .collect(),
    }
}

/// Every integer constant c of a clause replaced by c + 1 (same shape, other constants).
pub fn shift_consts(c: &Clause) -> Clause {
    fn t(x: &Term) -> Term {
        match x {
            Term::Const(V::I(n)) => Term::Const(V::I(n + 1)),
            o => o.clone(),
        }
    }
    fn e(x: &Expr) -> Expr {
        match x {
            Expr::T(y) => Expr::T(t(y)),
            Expr::Bin(op, l, r) => Expr::Bin(op.clone(), Box::new(e(l)), Box::new(e(r))),
        }
    }
    Clause {
        hr: c.hr.clone(),
        ha: c.ha.iter().map(t).collect(),
        body: c
            .body
            .iter()
            .map(|l| match l {
                Lit::Pos(r, a) => Lit::Pos(r.clone(), a.iter().map(t).collect()),
                Lit::Neg(r, a) => Lit::Neg(r.clone(), a.iter().map(t).collect()),
                Lit::Cmp(op, l, r) => Lit::Cmp(op.clone(), e(l), e(r)),
                Lit::Asg(v, x) => Lit::Asg(v.clone(), e(x)),
            })
            .collect(),
    }
}

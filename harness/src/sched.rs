//! drive-sched (C15, C19, C20, C17): real threads running StorageEngine operations
//! under a controller that decides, at the cfg-guarded scheduling points of the
//! code under test, which thread runs next.  A schedule is a sequence of thread
//! names; it comes from TLC (MC_Sched enumerates every interleaving) or from a
//! seeded random generator.  Between steps *all* controlled threads are parked (or
//! finished), so the data directory can be copied there as a consistent crash image.
use crate::store::{self, Known, Runner, StoreCfg};
use crate::val::Mode;
use inputlayer::verif_hooks::{self, Controller};
use rand::rngs::StdRng;
use rand::{Rng, SeedableRng};
use serde_json::{json, Value as J};
use std::cell::RefCell;
use std::collections::{BTreeMap, BTreeSet};
use std::io::Write;
use std::path::{Path, PathBuf};
use std::sync::{Arc, Condvar, Mutex};
use std::time::{Duration, Instant};

thread_local! {
    static NAME: RefCell<String> = const { RefCell::new(String::new()) };
}

#[derive(Default)]
struct State {
    parked: BTreeMap<String, String>,
    granted: Option<String>,
    finished: BTreeSet<String>,
    seq: u64,
    log: Vec<J>,
}
struct Ctl {
    st: Mutex<State>,
    cv: Condvar,
    /// scheduling points that do not park in this case (the read-path points are only used
    /// by the workloads made for them, so the other workloads keep their step counts)
    skip: Vec<String>,
}
impl Controller for Ctl {
    fn point(&self, name: &'static str) {
        if self.skip.iter().any(|s| s == name) {
            return;
        }
        let me = NAME.with(|n| n.borrow().clone());
        let mut st = self.st.lock().unwrap();
        st.seq += 1;
        let seq = st.seq;
        st.log.push(json!({"ev":"point","thr":me,"at":name,"seq":seq}));
        st.parked.insert(me.clone(), name.to_string());
        self.cv.notify_all();
        while st.granted.as_deref() != Some(me.as_str()) {
            st = self.cv.wait(st).unwrap();
        }
        st.granted = None;
        st.parked.remove(&me);
        // the scheduler waits for the grant to be taken
        self.cv.notify_all();
    }
}
impl Ctl {
    fn event(&self, j: J) -> u64 {
        let mut st = self.st.lock().unwrap();
        st.seq += 1;
        let seq = st.seq;
        let mut j = j;
        j["seq"] = json!(seq);
        st.log.push(j);
        seq
    }
}

fn copy_dir(src: &Path, dst: &Path) {
    std::fs::create_dir_all(dst).unwrap();
    if let Ok(rd) = std::fs::read_dir(src) {
        for e in rd.flatten() {
            let p = e.path();
            let d = dst.join(e.file_name());
            if p.is_dir() {
                copy_dir(&p, &d);
            } else {
                let _ = std::fs::copy(&p, &d);
            }
        }
    }
}

/// One case: `threads` = {name: [op..]}, `schedule` = [name..]; run in directory `dir` (cwd is switched to it).
pub fn run_case(case: &J, dir: &Path, images_every_step: bool) -> J {
    let _ = std::fs::remove_dir_all(dir);
    std::fs::create_dir_all(dir).unwrap();
    std::env::set_current_dir(dir).unwrap();
    let cfg = StoreCfg::from_json(&case["cfg"]);
    let runner = Runner::open(Path::new("data"), &cfg, Mode::Exact).expect("open");
    let engine = Arc::new(runner.engine.unwrap());
    // pre-history on the main thread (not controlled)
    let mut known: Known = Known::new();
    for op in case["pre"].as_array().cloned().unwrap_or_default() {
        apply(&engine, &op, &mut known);
    }
    let s0 = store::observe(&engine, &known, Mode::Exact);
    let skip: Vec<String> = match case["read_points"].as_bool() {
        Some(true) => vec![],
        _ => vec!["kg.publish.before_store".to_string(), "se.read.before_snapshot".to_string()],
    };
    let ctl = Arc::new(Ctl { st: Mutex::new(State::default()), cv: Condvar::new(), skip });
    verif_hooks::install(Some(ctl.clone() as Arc<dyn Controller>));
    let names: Vec<String> = case["threads"].as_object().unwrap().keys().cloned().collect();
    let mut handles = vec![];
    for n in &names {
        let ops: Vec<J> = case["threads"][n].as_array().unwrap().clone();
        let eng = engine.clone();
        let ctl2 = ctl.clone();
        let name = n.clone();
        handles.push(std::thread::spawn(move || {
            NAME.with(|x| *x.borrow_mut() = name.clone());
            verif_hooks::set_controlled(true);
            verif_hooks::point("start");
            let mut k: Known = Known::new();
            for (i, op) in ops.iter().enumerate() {
                if i > 0 {
                    // a scheduling point between two operations of one thread
                    verif_hooks::point("harness.between_ops");
                }
                let opid = format!("{name}.{}", i + 1);
                ctl2.event(json!({"ev":"call","thr":name,"op":opid}));
                let (ok, ret, obs) = apply(&eng, op, &mut k);
                ctl2.event(json!({"ev":"ret","thr":name,"op":opid,"ok":ok,"ret":ret,"obs":obs}));
            }
            verif_hooks::set_controlled(false);
            let mut st = ctl2.st.lock().unwrap();
            st.finished.insert(name.clone());
            ctl2.cv.notify_all();
        }));
    }
    let all_known: Known = {
        let mut k = known.clone();
        for n in &names {
            for op in case["threads"][n].as_array().unwrap() {
                if op["k"] == "ins" {
                    let ar = op["tuples"][0].as_array().map(|a| a.len()).unwrap_or(2);
                    k.entry(op["kg"].as_str().unwrap_or("g").to_string()).or_default().insert(op["rel"].as_str().unwrap().to_string(), ar);
                }
            }
        }
        k
    };
    let quiescent = |st: &State| names.iter().all(|n| st.parked.contains_key(n) || st.finished.contains(n));
    let mut schedule: Vec<String> = case["schedule"].as_array().map(|a| a.iter().map(|x| x.as_str().unwrap().to_string()).collect()).unwrap_or_default();
    schedule.reverse();
    let mut images: Vec<J> = vec![];
    let mut timed_out = false;
    let mut step = 0usize;
    // A granted thread may block on a lock that a parked thread holds (a scheduling
    // point inside a critical section).  If it neither parks nor finishes within
    // `patience`, it is considered blocked and another parked thread is granted; the
    // blocked thread continues by itself once the lock is released.
    let patience = Duration::from_millis(case["patience_ms"].as_u64().unwrap_or(250));
    loop {
        let started = Instant::now();
        let mut st = ctl.st.lock().unwrap();
        loop {
            if quiescent(&st) {
                break;
            }
            let waited = started.elapsed();
            if waited >= patience && !st.parked.is_empty() {
                break; // somebody is blocked; let another parked thread run
            }
            if waited >= Duration::from_secs(30) {
                timed_out = true;
                break;
            }
            st = ctl.cv.wait_timeout(st, Duration::from_millis(20)).unwrap().0;
        }
        if timed_out {
            break;
        }
        if names.iter().all(|n| st.finished.contains(n)) {
            break;
        }
        let seq = st.seq;
        // crash image only while every thread is parked or finished
        if quiescent(&st)
            && (images_every_step || case["image_steps"].as_array().map(|a| a.iter().any(|x| x.as_u64() == Some(step as u64))).unwrap_or(false))
        {
            drop(st);
            let img = PathBuf::from(format!("img{step}"));
            copy_dir(Path::new("data"), &img.join("data"));
            images.push(json!({"at": seq, "dir": img}));
            st = ctl.st.lock().unwrap();
        }
        // choose the next thread: the schedule's next parked thread, else the first parked one
        let mut pick: Option<String> = None;
        while let Some(n) = schedule.pop() {
            if st.parked.contains_key(&n) {
                pick = Some(n);
                break;
            }
        }
        let pick = pick.unwrap_or_else(|| st.parked.keys().next().unwrap().clone());
        st.log.push(json!({"ev":"grant","thr":pick,"step":step}));
        st.granted = Some(pick.clone());
        // the granted thread leaves `parked` itself; wait until it has done so
        ctl.cv.notify_all();
        while st.granted.is_some() {
            st = ctl.cv.wait(st).unwrap();
        }
        drop(st);
        step += 1;
    }
    if !timed_out {
        for h in handles {
            let _ = h.join();
        }
    }
    verif_hooks::install(None);
    let served = store::observe(&engine, &all_known, Mode::Exact);
    // the final image: everything returned, nothing in flight
    let seq_end = ctl.st.lock().unwrap().seq;
    copy_dir(Path::new("data"), &PathBuf::from("imgend").join("data"));
    images.push(json!({"at": seq_end, "dir": "imgend"}));
    let log = ctl.st.lock().unwrap().log.clone();
    json!({"timed_out": timed_out, "log": log, "served": served, "images": images, "known": all_known, "s0": s0})
}

fn apply(e: &Arc<inputlayer::StorageEngine>, op: &J, known: &mut Known) -> (bool, J, J) {
    let k = op["k"].as_str().unwrap_or("");
    let g = op["kg"].as_str().unwrap_or("g").to_string();
    let rel = op["rel"].as_str().unwrap_or("r").to_string();
    let tuples = || -> Vec<inputlayer::value::Tuple> {
        op["tuples"].as_array().map(|a| a.iter().map(crate::val::tuple_from_json).collect()).unwrap_or_default()
    };
    let r: Result<J, String> = match k {
        "ins" => {
            let ts = tuples();
            let ar = ts.first().map(|t| t.arity()).unwrap_or(2);
            known.entry(g.clone()).or_default().insert(rel.clone(), ar);
            e.insert_tuples_into(&g, &rel, ts).map(|r| json!({"new": r.0})).map_err(|e| format!("{e}"))
        }
        "del" => e.delete_tuples_from(&g, &rel, tuples()).map(|n| json!({"deleted": n})).map_err(|e| format!("{e}")),
        "save" => e.save_knowledge_graph(&g).map(|_| json!({})).map_err(|e| format!("{e}")),
        "compact" => e.compact_all().map(|_| json!({})).map_err(|e| format!("{e}")),
        "create" => e.create_knowledge_graph(&g).map(|_| json!({})).map_err(|e| format!("{e}")),
        "drop" => e.drop_knowledge_graph(&g).map(|_| json!({})).map_err(|e| format!("{e}")),
        "enable_incr" => e
            .with_kg_mut(&g, |kg| kg.enable_incremental().map_err(|e| format!("{e}")))
            .map(|_| json!({}))
            .map_err(|e| format!("{e}")),
        // consistent read of a relation from the incremental engine (C19)
        "iread" => {
            let r = e.with_kg_read(&g, |kg| match kg.incremental() {
                Some(dd) => dd.read_relation_consistent(&rel),
                None => Err("incremental maintenance is off".to_string()),
            });
            return match r {
                Ok(ts) => (true, json!({}), crate::val::relation(&ts, Mode::Exact)),
                Err(err) => (false, json!({"err": format!("{err}")}), json!([])),
            };
        }
        "query" => {
            // a snapshot query: what does this client observe?
            let mut kk = Known::new();
            kk.entry(g.clone()).or_default().insert(rel.clone(), op["arity"].as_u64().unwrap_or(2) as usize);
            let o = store::observe(e, &kk, Mode::Exact);
            return (true, json!({}), o["facts"][&g][&rel].clone());
        }
        _ => Err(format!("unknown op {k}")),
    };
    match r {
        Ok(j) => (true, j, json!([])),
        Err(e) => (false, json!({"err": e}), json!([])),
    }
}

/// drive-sched --cases <ndjson> --out <ndjson> --root <dir> [--all-images 1]
/// Cases run one after the other (the controller and the cwd are process-wide).
pub fn main(args: &BTreeMap<String, String>) {
    let cases = std::fs::read_to_string(args.get("cases").expect("--cases")).unwrap();
    let out = args.get("out").expect("--out");
    let root = PathBuf::from(args.get("root").expect("--root"));
    std::fs::create_dir_all(&root).unwrap();
    let root = root.canonicalize().unwrap();
    let all = args.contains_key("all-images");
    std::panic::set_hook(Box::new(|_| {}));
    let mut f = std::io::BufWriter::new(std::fs::File::create(out).unwrap());
    let _ = StdRng::seed_from_u64(0).gen::<u8>();
    for line in cases.lines().filter(|l| !l.trim().is_empty()) {
        let c: J = serde_json::from_str(line).unwrap();
        let id = c["case"].as_u64().unwrap_or(0);
        let dir = root.join(format!("c{id}"));
        let mut r = run_case(&c, &dir, all);
        r["case"] = json!(id);
        r["dir"] = json!(dir);
        r["ev"] = json!("sched");
        r["threads"] = c["threads"].clone();
        r["pre"] = c["pre"].clone();
        r["cfg"] = c["cfg"].clone();
        writeln!(f, "{r}").unwrap();
        f.flush().unwrap();
    }
    std::process::exit(0);
}

//! Store histories on the real `StorageEngine`: replay of TLC-emitted histories
//! (spec -> impl) and seeded random histories (impl -> spec).  After every
//! operation the abstract state (graphs, relation contents, rule texts,
//! schemas) is projected through the public API and recorded.
use crate::val::{self, Mode};
use inputlayer::config::{Config, DurabilityMode};
use inputlayer::statement::{RuleDef, SerializableRule};
use inputlayer::value::Tuple;
use inputlayer::StorageEngine;
use rand::rngs::StdRng;
use rand::seq::SliceRandom;
use rand::{Rng, SeedableRng};
use serde_json::{json, Value as J};
use std::collections::BTreeMap;
use std::io::Write;
use std::panic::{catch_unwind, AssertUnwindSafe};
use std::path::{Path, PathBuf};

#[derive(Clone, Debug)]
pub struct StoreCfg {
    pub buffer_size: usize,
    pub max_wal: u64,
    pub durability: DurabilityMode,
}
impl StoreCfg {
    pub fn default() -> StoreCfg {
        StoreCfg { buffer_size: 10000, max_wal: 0, durability: DurabilityMode::Immediate }
    }
    pub fn json(&self) -> J {
        json!({"buffer_size": self.buffer_size, "max_wal": self.max_wal,
               "durability": format!("{:?}", self.durability).to_lowercase()})
    }
    pub fn from_json(j: &J) -> StoreCfg {
        StoreCfg {
            buffer_size: j["buffer_size"].as_u64().unwrap_or(10000) as usize,
            max_wal: j["max_wal"].as_u64().unwrap_or(0),
            durability: match j["durability"].as_str().unwrap_or("immediate") {
                "batched" => DurabilityMode::Batched,
                "async" => DurabilityMode::Async,
                _ => DurabilityMode::Immediate,
            },
        }
    }
}

pub fn config(dir: &Path, c: &StoreCfg) -> Config {
    let mut cfg = Config::default();
    cfg.storage.data_dir = dir.to_path_buf();
    cfg.storage.default_knowledge_graph = "g".to_string();
    cfg.storage.persist.buffer_size = c.buffer_size;
    cfg.storage.persist.max_wal_size_bytes = c.max_wal;
    cfg.storage.persist.durability_mode = c.durability;
    cfg.storage.performance.num_threads = 0;
    cfg
}

pub fn strip_ws(s: &str) -> String {
    s.chars().filter(|c| !c.is_whitespace()).collect()
}

/// Relations the harness has ever written, per graph: name -> arity.  The
/// observation queries exactly these (a relation never written is empty).
pub type Known = BTreeMap<String, BTreeMap<String, usize>>;

pub fn observe(e: &StorageEngine, known: &Known, mode: Mode) -> J {
    let mut kgs = e.list_knowledge_graphs();
    kgs.sort();
    let mut facts = serde_json::Map::new();
    let mut rules = serde_json::Map::new();
    let mut schemas = serde_json::Map::new();
    for g in &kgs {
        let mut fm = serde_json::Map::new();
        if let Some(rels) = known.get(g) {
            for (r, a) in rels {
                let vars: Vec<String> = (0..*a).map(|i| format!("A{i}")).collect();
                let q = format!("obs_q({}) <- {}({})", vars.join(", "), r, vars.join(", "));
                match e.execute_query_tuples_on(g, &q) {
                    Ok(ts) => {
                        fm.insert(r.clone(), val::relation(&ts, mode));
                    }
                    Err(_) => {
                        fm.insert(r.clone(), json!([]));
                    }
                }
            }
        }
        facts.insert(g.clone(), J::Object(fm));
        let mut rm = serde_json::Map::new();
        if let Ok(names) = e.list_rules_in(g) {
            for n in names {
                let mut clauses: Vec<J> = vec![];
                if let Ok(Some(d)) = e.describe_rule_in(g, &n) {
                    // "  1. head <- body" lines of RuleDefinition::describe
                    for line in d.lines() {
                        let t = line.trim_start();
                        if let Some(pos) = t.find(". ") {
                            if t[..pos].chars().all(|c| c.is_ascii_digit()) && !t[..pos].is_empty() {
                                clauses.push(json!(strip_ws(&t[pos + 2..])));
                            }
                        }
                    }
                }
                rm.insert(n, J::Array(clauses));
            }
        }
        rules.insert(g.clone(), J::Object(rm));
        let mut sm = serde_json::Map::new();
        if let Ok(names) = e.list_schemas_in(g) {
            for n in names {
                if let Ok(Some(s)) = e.get_schema_in(g, &n) {
                    sm.insert(n, json!(strip_ws(&format!("{:?}", s.columns.iter().map(|c| (c.name.clone(), format!("{:?}", c.data_type))).collect::<Vec<_>>()))));
                }
            }
        }
        schemas.insert(g.clone(), J::Object(sm));
    }
    // consistent reads of the incremental engine's arrangements, where it is enabled (C19)
    let mut incr = serde_json::Map::new();
    for g in &kgs {
        if let Some(rels) = known.get(g) {
            let r = e.with_kg_read(g, |kg| {
                let mut m = serde_json::Map::new();
                if let Some(dd) = kg.incremental() {
                    for r in rels.keys() {
                        match dd.read_relation_consistent(r) {
                            Ok(ts) => {
                                m.insert(r.clone(), val::relation(&ts, mode));
                            }
                            Err(err) => {
                                m.insert(r.clone(), json!([[["err", err]]]));
                            }
                        }
                    }
                    Ok(Some(m))
                } else {
                    Ok(None)
                }
            });
            if let Ok(Some(m)) = r {
                incr.insert(g.clone(), J::Object(m));
            }
        }
    }
    json!({"kgs": kgs, "facts": facts, "rules": rules, "schemas": schemas, "incr": incr})
}

pub struct Runner {
    pub dir: PathBuf,
    pub cfg: StoreCfg,
    pub engine: Option<StorageEngine>,
    pub known: Known,
    pub mode: Mode,
}

impl Runner {
    pub fn open(dir: &Path, cfg: &StoreCfg, mode: Mode) -> Result<Runner, String> {
        let e = StorageEngine::new(config(dir, cfg)).map_err(|e| format!("{e}"))?;
        Ok(Runner { dir: dir.to_path_buf(), cfg: cfg.clone(), engine: Some(e), known: Known::new(), mode })
    }
    pub fn observe(&self) -> J {
        observe(self.engine.as_ref().unwrap(), &self.known, self.mode)
    }
    fn tuples(op: &J) -> Vec<Tuple> {
        op["tuples"].as_array().map(|a| a.iter().map(val::tuple_from_json).collect()).unwrap_or_default()
    }
    /// Applies one operation; returns (ok, ret).
    pub fn apply(&mut self, op: &J) -> (bool, J) {
        let k = op["k"].as_str().unwrap_or("").to_string();
        let g = op["kg"].as_str().unwrap_or("g").to_string();
        let rel = op["rel"].as_str().unwrap_or("r").to_string();
        let r = catch_unwind(AssertUnwindSafe(|| -> Result<J, String> {
            let e = self.engine.as_ref().unwrap();
            match k.as_str() {
                "ins" => {
                    let ts = Self::tuples(op);
                    let ar = ts.first().map(|t| t.arity()).unwrap_or(0);
                    let r = e.insert_tuples_into(&g, &rel, ts).map_err(|e| format!("{e}"))?;
                    self.known.entry(g.clone()).or_default().insert(rel.clone(), ar);
                    Ok(json!({"new": r.0, "dup": r.1}))
                }
                "del" => {
                    let ts = Self::tuples(op);
                    let n = e.delete_tuples_from(&g, &rel, ts).map_err(|e| format!("{e}"))?;
                    Ok(json!({"deleted": n}))
                }
                "save" => e.save_knowledge_graph(&g).map(|_| json!({})).map_err(|e| format!("{e}")),
                "save_all" => e.save_all().map(|_| json!({})).map_err(|e| format!("{e}")),
                "compact" => e.compact_all().map(|_| json!({})).map_err(|e| format!("{e}")),
                "create" => e.create_knowledge_graph(&g).map(|_| json!({})).map_err(|e| format!("{e}")),
                "drop" => {
                    let r = e.drop_knowledge_graph(&g).map(|_| json!({})).map_err(|e| format!("{e}"));
                    if r.is_ok() {
                        self.known.remove(&g);
                    }
                    r
                }
                "droprel" => e.drop_relation_in(&g, &rel).map(|_| json!({})).map_err(|e| format!("{e}")),
                "rule" => {
                    let text = op["text"].as_str().unwrap();
                    let rule = inputlayer::parser::parse_rule(text)?;
                    let def = RuleDef { name: op["name"].as_str().unwrap().to_string(), rule: SerializableRule::from_rule(&rule) };
                    e.register_rule_in(&g, &def).map(|_| json!({})).map_err(|e| format!("{e}"))
                }
                "droprule" => e.drop_rule_in(&g, op["name"].as_str().unwrap()).map(|_| json!({})).map_err(|e| format!("{e}")),
                "schema" => {
                    // op.cols = [[name, "Int"|"String"|"Float"|"Bool"], ..]
                    use inputlayer::schema::{ColumnSchema, RelationSchema, SchemaType};
                    let mut rs = RelationSchema::new(&rel);
                    for c in op["cols"].as_array().cloned().unwrap_or_default() {
                        let ty = match c[1].as_str().unwrap_or("Int") {
                            "String" => SchemaType::String,
                            "Float" => SchemaType::Float,
                            "Bool" => SchemaType::Bool,
                            _ => SchemaType::Int,
                        };
                        rs = rs.with_column(ColumnSchema::new(c[0].as_str().unwrap_or("c"), ty));
                    }
                    e.register_schema_in(&g, rs).map(|_| json!({})).map_err(|e| format!("{e}"))
                }
                "dropschema" => e.remove_schema_in(&g, &rel).map(|_| json!({})).map_err(|e| format!("{e}")),
                // turn on incremental maintenance (what creating an index does)
                "enable_incr" => e
                    .with_kg_mut(&g, |kg| kg.enable_incremental().map_err(|e| format!("{e}")))
                    .map(|_| json!({}))
                    .map_err(|e| format!("{e}")),
                "restart" | "restart_nosave" => Err("restart handled by caller".into()),
                other => Err(format!("unknown op {other}")),
            }
        }));
        if k == "restart" || k == "restart_nosave" {
            // A clean shutdown is `save_all` (what Handler::shutdown does) followed by
            // dropping the engine.  Dropping without it is a clean shutdown only in
            // immediate mode, where every acknowledged write is already synced; in
            // batched/async mode it is a crash-like event the properties do not cover.
            let immediate = self.cfg.durability == DurabilityMode::Immediate;
            return self.restart(k == "restart" || !immediate);
        }
        match r {
            Ok(Ok(ret)) => (true, ret),
            Ok(Err(e)) => (false, json!({"err": e})),
            Err(p) => (false, json!({"panic": crate::engine::panic_msg(p)})),
        }
    }
    pub fn restart(&mut self, save: bool) -> (bool, J) {
        if save {
            if let Some(e) = self.engine.as_ref() {
                if let Err(err) = e.save_all() {
                    return (false, json!({"err": format!("save_all: {err}")}));
                }
            }
        }
        self.engine = None; // drop = clean shutdown
        match catch_unwind(AssertUnwindSafe(|| StorageEngine::new(config(&self.dir, &self.cfg)))) {
            Ok(Ok(e)) => {
                self.engine = Some(e);
                (true, json!({}))
            }
            Ok(Err(err)) => (false, json!({"err": format!("reopen: {err}")})),
            Err(p) => (false, json!({"panic": crate::engine::panic_msg(p)})),
        }
    }
}

/// The op as the specification reads it (rule texts whitespace-free, like the observation).
fn op_for_trace(op: &J) -> J {
    let mut o = op.clone();
    if let Some(t) = op.get("text").and_then(|t| t.as_str()) {
        o["text"] = json!(strip_ws(t));
    }
    // tuples in the canonical Exact encoding (the one observations use)
    if let Some(ts) = op.get("tuples").and_then(|t| t.as_array()) {
        o["tuples"] = J::Array(ts.iter().map(|t| val::tuple(&val::tuple_from_json(t), Mode::Exact)).collect());
    }
    o
}

pub fn run_history(case: usize, kind: &str, ops: &[J], cfg: &StoreCfg, mode: Mode, root: &Path, out: &mut Vec<String>) {
    let dir = root.join(format!("h{case}"));
    let _ = std::fs::remove_dir_all(&dir);
    std::fs::create_dir_all(&dir).unwrap();
    let mut r = match Runner::open(&dir, cfg, mode) {
        Ok(r) => r,
        Err(e) => {
            out.push(json!({"ev":"openfail","case":case,"err":e}).to_string());
            return;
        }
    };
    out.push(json!({"ev":"reset","case":case,"kind":kind,"cfg":cfg.json(),"state":r.observe()}).to_string());
    for (i, op) in ops.iter().enumerate() {
        let (ok, ret) = r.apply(op);
        if r.engine.is_none() {
            // reopen failed: the store is gone; record and stop this history
            out.push(json!({"ev":"op","case":case,"kind":kind,"step":i+1,"op":op_for_trace(op),"ok":false,"ret":ret,
                "state":{"kgs":[],"facts":{},"rules":{},"schemas":{},"incr":{}},"reopen_failed":true}).to_string());
            break;
        }
        out.push(json!({"ev":"op","case":case,"kind":kind,"step":i+1,"op":op_for_trace(op),"ok":ok,"ret":ret,"state":r.observe()}).to_string());
    }
    drop(r);
    let _ = std::fs::remove_dir_all(&dir);
}

fn t(i: i64) -> J {
    json!([["i64", i], ["i64", i * 10]])
}

fn random_history(rng: &mut StdRng, len: usize) -> Vec<J> {
    let rels = ["r", "s"];
    let mut ops = vec![];
    for _ in 0..len {
        let rel = rels.choose(rng).unwrap();
        let x: f64 = rng.gen();
        let n = rng.gen_range(1..=3);
        let ts: Vec<J> = (0..n).map(|_| t(rng.gen_range(1..=4))).collect();
        let op = if x < 0.4 {
            json!({"k":"ins","kg":"g","rel":rel,"tuples":ts})
        } else if x < 0.65 {
            json!({"k":"del","kg":"g","rel":rel,"tuples":ts})
        } else if x < 0.73 {
            json!({"k":"save","kg":"g"})
        } else if x < 0.81 {
            json!({"k":"compact","kg":"g"})
        } else if x < 0.91 {
            json!({"k":"restart","kg":"g"})
        } else {
            json!({"k":"restart_nosave","kg":"g"})
        };
        ops.push(op);
    }
    ops
}

/// Representative values of every kind, in the Exact JSON encoding.
pub fn value_domain() -> Vec<J> {
    let f = |x: f64| json!(["f", format!("bits:{:016x}", x.to_bits())]);
    let fv = |xs: &[f32]| json!(["v", xs.iter().map(|x| format!("bits:{:08x}", x.to_bits())).collect::<Vec<_>>()]);
    vec![
        json!(["i32", 0]), json!(["i32", 7]), json!(["i32", -1]), json!(["i32", "#2147483647"]), json!(["i32", "#-2147483648"]),
        json!(["i64", 0]), json!(["i64", 7]), json!(["i64", -1]), json!(["i64", "#9223372036854775807"]),
        json!(["i64", "#-9223372036854775808"]), json!(["i64", "#4294967296"]),
        f(0.0), f(-0.0), f(1.5), f(7.0), f(-2.25), f(f64::NAN), f(f64::INFINITY), f(f64::NEG_INFINITY),
        f(f64::MIN_POSITIVE / 4.0), f(1.0e300), f(0.1),
        json!(["s", ""]), json!(["s", "a"]), json!(["s", "7"]), json!(["s", "a\"b"]), json!(["s", "line\nbreak"]),
        json!(["s", "caf\u{e9} \u{1F600}"]), json!(["s", "null"]), json!(["s", "a,b"]), json!(["s", " lead"]),
        json!(["b", true]), json!(["b", false]), json!(["n"]),
        json!(["ts", 0]), json!(["ts", 5]), json!(["ts", "#1700000000000"]), json!(["ts", -1]),
        fv(&[]), fv(&[1.0]), fv(&[0.5, -0.5]), fv(&[1.0, 2.0, 3.0]), fv(&[0.0, -0.0, f32::NAN, f32::INFINITY, 1e-40]),
        json!(["v8", []]), json!(["v8", [1]]), json!(["v8", [-128, 127, 0]]), json!(["v8", [1, 2, 3, 4, 5]]),
    ]
}

/// C12 histories: batches mixing value kinds in one schema-less relation,
/// then (flush | compact | nothing), then restart; sometimes more writes and a
/// second restart.
fn values_history(rng: &mut StdRng) -> Vec<J> {
    let dom = value_domain();
    let arity = rng.gen_range(1..=3);
    let mut ops = vec![];
    let rounds = rng.gen_range(1..=2);
    for _ in 0..rounds {
        let nb = rng.gen_range(1..=3);
        for _ in 0..nb {
            // a batch: either homogeneous kinds per column or a deliberate mix
            let n = rng.gen_range(1..=4);
            let mixed = rng.gen_bool(0.6);
            let colkind: Vec<usize> = (0..arity).map(|_| rng.gen_range(0..dom.len())).collect();
            let ts: Vec<J> = (0..n)
                .map(|_| {
                    J::Array(
                        (0..arity)
                            .map(|c| {
                                if mixed {
                                    dom[rng.gen_range(0..dom.len())].clone()
                                } else {
                                    // same tag as the column's representative
                                    let tag = dom[colkind[c]][0].clone();
                                    let same: Vec<&J> = dom.iter().filter(|v| v[0] == tag).collect();
                                    (*same.choose(rng).unwrap()).clone()
                                }
                            })
                            .collect(),
                    )
                })
                .collect();
            ops.push(json!({"k":"ins","kg":"g","rel":"r","tuples":ts}));
            if rng.gen_bool(0.15) {
                if let Some(J::Array(prev)) = ops.last().map(|o| o["tuples"].clone()) {
                    ops.push(json!({"k":"del","kg":"g","rel":"r","tuples":[prev[0].clone()]}));
                }
            }
        }
        match rng.gen_range(0..3) {
            0 => ops.push(json!({"k":"save","kg":"g"})),
            1 => ops.push(json!({"k":"compact","kg":"g"})),
            _ => {}
        }
        ops.push(json!({"k": if rng.gen_bool(0.5) {"restart"} else {"restart_nosave"}, "kg":"g"}));
    }
    ops
}

pub fn cfg_grid(focus: &str) -> Vec<StoreCfg> {
    let mut v = vec![];
    if focus == "c14" {
        for b in [1usize, 2, 3, 10000] {
            for w in [0u64, 200] {
                for d in [DurabilityMode::Immediate, DurabilityMode::Batched, DurabilityMode::Async] {
                    v.push(StoreCfg { buffer_size: b, max_wal: w, durability: d });
                }
            }
        }
    } else {
        v.push(StoreCfg::default());
        v.push(StoreCfg { buffer_size: 1, ..StoreCfg::default() });
        v.push(StoreCfg { buffer_size: 2, ..StoreCfg::default() });
    }
    v
}

/// drive-store --hist <file of TLC "hist" lines> | --random N  --focus c11|c14|c17 --out trace --threads T
pub fn main(args: &BTreeMap<String, String>) {
    let out = args.get("out").expect("--out");
    let focus = args.get("focus").map(|s| s.as_str()).unwrap_or("c11").to_string();
    let seed: u64 = args.get("seed").map(|s| s.parse().unwrap()).unwrap_or(1);
    let threads: usize = args.get("threads").map(|s| s.parse().unwrap()).unwrap_or(12);
    let root = PathBuf::from(args.get("root").expect("--root"));
    std::fs::create_dir_all(&root).unwrap();
    let mut jobs: Vec<(usize, String, Vec<J>, StoreCfg)> = vec![];
    let grid = cfg_grid(&focus);
    let mut id = 0usize;
    if let Some(h) = args.get("hist") {
        for line in std::fs::read_to_string(h).unwrap().lines() {
            if line.trim().is_empty() {
                continue;
            }
            let r: J = serde_json::from_str(line).unwrap();
            let ops = r["ops"].as_array().unwrap().clone();
            // exhaustive histories run under every configuration of the grid
            // (c14) or round-robin over it (others)
            if focus == "c14" {
                for c in &grid {
                    id += 1;
                    jobs.push((id, "hist".into(), ops.clone(), c.clone()));
                }
            } else {
                id += 1;
                jobs.push((id, "hist".into(), ops, grid[id % grid.len()].clone()));
            }
        }
    }
    if let Some(p) = args.get("pairs") {
        // every ordered pair of domain values in one column of one batch, then
        // (nothing | flush via buffer_size 1 | compact), then restart
        let dom = value_domain();
        let pick: Vec<J> = if p == "full" {
            dom.clone()
        } else {
            // one or two representatives per kind
            let mut seen: BTreeMap<String, usize> = BTreeMap::new();
            dom.iter()
                .filter(|v| {
                    let c = seen.entry(v[0].as_str().unwrap().to_string()).or_insert(0);
                    *c += 1;
                    *c == 2 || (*c == 1 && v[0] == "n") || (*c == 5 && v[0] == "f")
                })
                .cloned()
                .collect()
        };
        for a in &pick {
            for b in &pick {
                for variant in 0..3 {
                    id += 1;
                    let mut ops = vec![json!({"k":"ins","kg":"g","rel":"r","tuples":[[a.clone()],[b.clone()]]})];
                    let mut c = StoreCfg::default();
                    match variant {
                        1 => c.buffer_size = 1,
                        2 => ops.push(json!({"k":"compact","kg":"g"})),
                        _ => {}
                    }
                    ops.push(json!({"k":"restart_nosave","kg":"g"}));
                    jobs.push((id, "values".into(), ops, c));
                }
            }
        }
    }
    if let Some(n) = args.get("random") {
        let n: usize = n.parse().unwrap();
        let mut rng = StdRng::seed_from_u64(seed);
        for _ in 0..n {
            id += 1;
            let len = rng.gen_range(4..=14);
            let c = grid.choose(&mut rng).unwrap().clone();
            if focus == "c12" {
                jobs.push((id, "values".into(), values_history(&mut rng), c));
            } else if focus == "c19" {
                // incremental maintenance switched on somewhere early in the history
                let mut h = random_history(&mut rng, len);
                let at = rng.gen_range(0..=h.len().min(3));
                h.insert(at, json!({"k":"enable_incr","kg":"g"}));
                jobs.push((id, "random".into(), h, c));
            } else {
                jobs.push((id, "random".into(), random_history(&mut rng, len), c));
            }
        }
    }
    std::panic::set_hook(Box::new(|_| {}));
    let meta: Vec<(usize, String, Vec<J>, StoreCfg)> = jobs.clone();
    let timeout = std::time::Duration::from_secs(args.get("job-timeout").map(|s| s.parse().unwrap()).unwrap_or(60));
    let root2 = root.clone();
    let res = crate::pool::run(jobs, threads, timeout, move |_, (id, kind, ops, cfg)| {
        let mut lines = vec![];
        run_history(id, &kind, &ops, &cfg, Mode::Exact, &root2, &mut lines);
        lines
    });
    let mut f = std::io::BufWriter::new(std::fs::File::create(out).unwrap());
    for (idx, o) in res {
        match o {
            crate::pool::Outcome::Done(lines) => {
                for l in lines {
                    writeln!(f, "{l}").unwrap();
                }
            }
            crate::pool::Outcome::Hung => {
                // the engine never returned on this history: an observation for the
                // pipeline (judged as a rejected case), not a tool failure
                let (id, kind, ops, cfg) = &meta[idx];
                writeln!(f, "{}", json!({"ev":"hang","case":id,"kind":kind,"cfg":cfg.json(),
                    "ops": ops.iter().map(op_for_trace).collect::<Vec<_>>()})).unwrap();
            }
        }
    }
    drop(f);
    // abandoned (hung) threads never finish
    std::process::exit(0);
}

//! Crash-point enumeration (C13, C16) without any hook in the persistence
//! code: `crash-workload` performs a history on a real StorageEngine whose data
//! directory is *relative* ("data" under the current directory) and writes
//! `VERIF-ATTEMPT n` / `VERIF-ACK n` markers to stderr; it is run under strace
//! by tools/eng_crash.py, tools/fsreplay.py rebuilds the directory as it was at
//! every syscall boundary (under several loss models) and `recover` opens each
//! image with the real recovery code and dumps what it serves.
use crate::store::{self, Runner, StoreCfg};
use crate::val::Mode;
use serde_json::{json, Value as J};
use std::collections::BTreeMap;
use std::io::Write;
use std::panic::{catch_unwind, AssertUnwindSafe};
use std::path::{Path, PathBuf};

fn marker(s: &str) {
    // one write(2) per marker so that it is one line of the syscall log
    let line = format!("{s}\n");
    let _ = std::io::stderr().write_all(line.as_bytes());
}

/// crash-workload --ops <file.json> [--cfg <json>]   (cwd = case directory)
pub fn workload(args: &BTreeMap<String, String>) {
    let ops: Vec<J> = serde_json::from_str(&std::fs::read_to_string(args.get("ops").expect("--ops")).unwrap()).unwrap();
    let cfg = args.get("cfg").map(|s| StoreCfg::from_json(&serde_json::from_str(s).unwrap())).unwrap_or_else(StoreCfg::default);
    std::panic::set_hook(Box::new(|_| {}));
    marker("VERIF-START");
    let mut r = match Runner::open(Path::new("data"), &cfg, Mode::Exact) {
        Ok(r) => r,
        Err(e) => {
            marker(&format!("VERIF-OPENFAIL {e}"));
            std::process::exit(3);
        }
    };
    marker("VERIF-OPENED");
    for (i, op) in ops.iter().enumerate() {
        marker(&format!("VERIF-ATTEMPT {}", i + 1));
        let (ok, _ret) = r.apply(op);
        if ok {
            marker(&format!("VERIF-ACK {}", i + 1));
        } else {
            marker(&format!("VERIF-NACK {}", i + 1));
        }
    }
    marker("VERIF-DONE");
    // no clean shutdown: the process just ends (the images are what matters)
    std::process::exit(0);
}

/// What a reopened store serves, given the relations the history touches.
fn dump(dir: &Path, cfg: &StoreCfg, known: &store::Known) -> J {
    let r = catch_unwind(AssertUnwindSafe(|| Runner::open(dir, cfg, Mode::Exact)));
    match r {
        Ok(Ok(mut run)) => {
            run.known = known.clone();
            // graphs the history created are observed too
            if let Some(e) = run.engine.as_ref() {
                for g in e.list_knowledge_graphs() {
                    if !run.known.contains_key(&g) {
                        let rels = known.values().next().cloned().unwrap_or_default();
                        run.known.insert(g, rels);
                    }
                }
            }
            json!({"reopened": true, "state": run.observe()})
        }
        Ok(Err(e)) => json!({"reopened": false, "err": e, "state": {"kgs": [], "facts": {}, "rules": {}, "schemas": {}}}),
        Err(p) => json!({"reopened": false, "panic": crate::engine::panic_msg(p),
                         "state": {"kgs": [], "facts": {}, "rules": {}, "schemas": {}}}),
    }
}

/// recover --list <file: one image directory per line> --known <json> --out <ndjson> [--cfg json]
/// Every image directory contains a `data` directory; it is opened with the
/// process cwd unchanged, so images must have been materialised with batch paths
/// that are valid relative to the directory given (see fsreplay.py).
pub fn recover(args: &BTreeMap<String, String>) {
    let list = std::fs::read_to_string(args.get("list").expect("--list")).unwrap();
    let known: store::Known = serde_json::from_str(args.get("known").expect("--known")).unwrap();
    let cfg = args.get("cfg").map(|s| StoreCfg::from_json(&serde_json::from_str(s).unwrap())).unwrap_or_else(StoreCfg::default);
    let out = args.get("out").expect("--out");
    let threads: usize = args.get("threads").map(|s| s.parse().unwrap()).unwrap_or(1);
    std::panic::set_hook(Box::new(|_| {}));
    let dirs: Vec<PathBuf> = list.lines().filter(|l| !l.trim().is_empty()).map(PathBuf::from).collect();
    // Shard metadata stores batch paths exactly as configured ("data/persist/..."),
    // i.e. relative to the workload's cwd: each image must be opened with its own
    // directory as cwd.  chdir is process-wide, so images are processed one at a
    // time per process; parallelism comes from running several `recover` processes.
    let _ = threads;
    let mut f = std::io::BufWriter::new(std::fs::File::create(out).unwrap());
    let home = std::env::current_dir().unwrap();
    for d in dirs {
        let abs = if d.is_absolute() { d.clone() } else { home.join(&d) };
        if std::env::set_current_dir(&abs).is_err() {
            writeln!(f, "{}", json!({"dir": d, "reopened": false, "err": "image directory missing"})).unwrap();
            continue;
        }
        let mut j = dump(Path::new("data"), &cfg, &known);
        j["dir"] = json!(d);
        writeln!(f, "{j}").unwrap();
        let _ = std::env::set_current_dir(&home);
    }
    drop(f);
    std::process::exit(0);
}

//! ilv: drives the real inputlayer code for the TLA+-based checks in /verif.
#![allow(dead_code)]
mod crash;
mod engine;
mod hscen;
mod indexes;
mod values;
mod vecindex;
mod vecops;
mod matrix;
mod pool;
mod prog;
mod plans;
mod proof;
mod rules;
mod sched;
mod store;
mod val;

use std::collections::BTreeMap;

fn parse_args(a: &[String]) -> BTreeMap<String, String> {
    let mut m = BTreeMap::new();
    let mut i = 0;
    while i < a.len() {
        if let Some(k) = a[i].strip_prefix("--") {
            if i + 1 < a.len() && !a[i + 1].starts_with("--") {
                m.insert(k.to_string(), a[i + 1].clone());
                i += 2;
            } else {
                m.insert(k.to_string(), "1".to_string());
                i += 1;
            }
        } else {
            i += 1;
        }
    }
    m
}

fn main() {
    let a: Vec<String> = std::env::args().collect();
    if a.len() < 2 {
        eprintln!("usage: ilv <subcommand> [--key value]...");
        std::process::exit(2);
    }
    let args = parse_args(&a[2..]);
    match a[1].as_str() {
        "drive-engine" => engine::main(&args),
        "replay-engine" => engine::replay(&args),
        "drive-store" => store::main(&args),
        "drive-handler" => hscen::main(&args),
        "dump-matrix" => matrix::main(&args),
        "dump-values" => values::main(&args),
        "drive-vecindex" => vecindex::main(&args),
        "drive-vecops" => vecops::main(&args),
        "drive-plans" => plans::main(&args),
        "drive-proof" => proof::main(&args),
        "drive-rules" => rules::main(&args),
        "drive-sched" => sched::main(&args),
        "drive-indexes" => indexes::main(&args),
        "crash-workload" => crash::workload(&args),
        "recover" => crash::recover(&args),
        other => {
            eprintln!("unknown subcommand {other}");
            std::process::exit(2);
        }
    }
}
